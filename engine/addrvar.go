package main

import (
	"go/types"
)

// addrVar resolves the name of an address-taken local or of a captured variable (closure free
// variable): a struct variable is denoted by its address (field selection dereferences it), any
// other variable by its current value in the given heap.
func (f *frame) addrVar(name string, heap *heapState) (SVal, bool) {
	a, ok := f.debugAddr[name]
	if !ok {
		return SVal{}, false
	}
	var val Val
	if have, ok := f.vals[a]; ok {
		val = have
	} else {
		return SVal{}, false
	}
	pt, ok := types.Unalias(a.Type()).Underlying().(*types.Pointer)
	if !ok {
		return SVal{}, false
	}
	if _, isStruct := structOf(pt.Elem()); isStruct {
		return f.sval(val, a.Type()), true
	}
	ad := f.addrOfPtr(val, a.Type())
	return SVal{T: f.load(heap, ad), GoT: pt.Elem()}, true
}
