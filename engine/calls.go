package main

import (
	"fmt"
	"go/token"
	"go/types"
	"strings"

	"golang.org/x/tools/go/ssa"
)

const maxInlineDepth = 4

func (f *frame) call(site siteT, cc *ssa.CallCommon) Val {
	args := make([]Val, len(cc.Args))
	for i, a := range cc.Args {
		args[i] = f.get(a)
	}
	var fnVal Val
	if !cc.IsInvoke() {
		if _, isB := cc.Value.(*ssa.Builtin); !isB {
			fnVal = f.get(cc.Value)
		}
	} else {
		fnVal = f.get(cc.Value)
	}
	matched := f.atCallAsserts(cc, site.Pos())
	res := f.doCall(site, cc, fnVal, args, site.Pos())
	for _, ac := range matched {
		if len(ac.Assumes) == 0 && len(ac.Sets) == 0 {
			continue
		}
		env := f.pointEnv(f.heap)
		sig := cc.Signature()
		for i, a := range cc.Args {
			env.vars[fmt.Sprintf("arg%d", i)] = f.sval(f.get(a), a.Type())
		}
		if cc.IsInvoke() {
			env.vars["recv"] = f.sval(f.get(cc.Value), cc.Value.Type())
		}
		if t, ok := res.(Tuple); ok {
			for i, rv := range t {
				env.vars[fmt.Sprintf("r%d", i)] = f.sval(rv, sig.Results().At(i).Type())
			}
		} else if sig.Results().Len() == 1 {
			env.vars["r"] = f.sval(res, sig.Results().At(0).Type())
			env.vars["r0"] = env.vars["r"]
		}
		for _, cl := range ac.Assumes {
			f.assumeClause(env, cl, f.guard)
			f.c.assumed[fmt.Sprintf("assumed at call %s#%d: %s", ac.Callee, ac.Ordinal, cl.Text)] = true
		}
		for _, gs := range ac.Sets {
			g := f.c.eng.ghosts[gs.Name]
			if g == nil {
				specFail("ghost assignment to undeclared ghost field %s", gs.Name)
			}
			srt := arraySort(SInt, specSort(g.Sort))
			obj, val := env.eval(gs.Obj.E).T, env.eval(gs.Val.E).T
			arr := f.c.heapGet(f.heap, "G "+g.Name, srt)
			f.c.heapSet(f.heap, "G "+g.Name, ite(f.guard, store(arr, obj, val), arr))
		}
	}
	return res
}

// atCallAsserts generates the obligations of `at call NAME#k: assert E` clauses.
func (f *frame) atCallAsserts(cc *ssa.CallCommon, pos token.Pos) (matched []*AtCall) {
	if !f.top || f.contract == nil || len(f.contract.AtCalls) == 0 {
		return nil
	}
	name := ""
	if cc.IsInvoke() {
		name = ifaceMethodKey(cc.Value.Type(), cc.Method)
	} else if callee := cc.StaticCallee(); callee != nil {
		name = funcKey(callee)
	} else {
		name = "func value " + cc.Value.Name()
	}
	seen := map[string]bool{}
	for _, ac := range f.contract.AtCalls {
		if !strings.HasSuffix(name, ac.Callee) {
			continue
		}
		if !seen[ac.Callee] {
			seen[ac.Callee] = true
			f.callOrd["atn "+ac.Callee]++
		}
		if f.callOrd["atn "+ac.Callee] != ac.Ordinal {
			continue
		}
		matched = append(matched, ac)
		env := f.pointEnv(f.heap)
		for i, a := range cc.Args { // arg0, arg1, ...: the call's arguments (receiver excluded for interface calls)
			env.vars[fmt.Sprintf("arg%d", i)] = f.sval(f.get(a), a.Type())
		}
		if cc.IsInvoke() { // recv: the interface value the method is invoked on
			env.vars["recv"] = f.sval(f.get(cc.Value), cc.Value.Type())
		}
		for i, cl := range ac.Asserts {
			g := f.obligeClause("assert", fmt.Sprintf("%s#at:%s#%d.assert%d", shortFn(f.c.fn), ac.Callee, ac.Ordinal, i+1), env, cl, f.guard, f.pos(pos), false)
			f.c.assume(implies(f.guard, g))
		}
	}
	return matched
}

// pointEnv: spec environment at a program point; local names resolve to the last recorded value
// of the variable that is available on this path.
func (f *frame) pointEnv(heap *heapState) *specEnv {
	env := f.baseEnv(heap)
	at := f.cur
	env.at = at
	env.resolve = func(name string) (SVal, bool) {
		if v, ok := f.addrVar(name, heap); ok {
			return v, true
		}
		if found, ok := f.lookupLocal(name, at); ok {
			return f.sval(f.get(found), found.Type()), true
		}
		// idx<N>: the current index of range loop N (inside its body)
		if strings.HasPrefix(name, "idx") {
			var n int
			if _, err := fmt.Sscanf(name, "idx%d", &n); err == nil {
				for _, l2 := range f.loops {
					if l2.ordinal != n {
						continue
					}
					for _, in := range l2.header.Instrs {
						if p, ok := in.(*ssa.Phi); ok && p.Comment == "rangeindex" {
							if have, ok := f.vals[p].(Term); ok {
								return SVal{T: add(have, tOne), GoT: p.Type()}, true
							}
						}
					}
				}
			}
		}
		return SVal{}, false
	}
	return env
}

// doCall performs a call whose operands have already been evaluated (also used for
// deferred calls).
func (f *frame) doCall(site siteT, cc *ssa.CallCommon, fnVal Val, args []Val, pos token.Pos) Val {
	c := f.c
	sig := cc.Signature()
	if cc.IsInvoke() {
		recv := fnVal
		// devirtualise when the dynamic type is known
		if dt, ok := f.dynType[cc.Value]; ok {
			if m := c.eng.prog.LookupMethod(dt, cc.Method.Pkg(), cc.Method.Name()); m != nil {
				rv := recv
				if _, isPtr := types.Unalias(dt).Underlying().(*types.Pointer); !isPtr {
					if _, isIface := types.Unalias(dt).Underlying().(*types.Interface); !isIface {
						// unbox the receiver value
						s := c.sortOf(dt)
						unbox := quote("unbox " + typeKey(dt))
						c.decl("unbox "+unbox, fmt.Sprintf("(declare-fun %s (Int) %s)", unbox, s))
						rv = mk(s, unbox, f.asTerm(recv))
					}
				}
				return f.staticCall(site, m, append([]Val{rv}, args...), pos, cc)
			}
		}
		key := ifaceMethodKey(cc.Value.Type(), cc.Method)
		if ct := c.eng.contract(key); ct != nil {
			return f.callByContract(site, ct, key, sig, nil, append([]Val{recv}, args...), pos, cc.Method)
		}
		return f.unknownCall(site, key, sig, append([]Val{recv}, args...), pos)
	}
	switch fv := cc.Value.(type) {
	case *ssa.Builtin:
		return f.builtin(site, fv, cc, args, pos)
	case *ssa.Function:
		return f.staticCall(site, fv, args, pos, cc)
	}
	if cl, ok := fnVal.(*Closure); ok {
		if len(cl.Bindings) == 0 {
			return f.staticCall(site, cl.Fn, args, pos, cc)
		}
		return f.inline(site, cl.Fn, args, cl.Bindings, pos)
	}
	return f.unknownCall(site, "func value "+cc.Value.Name(), sig, args, pos)
}

func ifaceMethodKey(t types.Type, m *types.Func) string {
	return "(" + typeKey(t) + ")." + m.Name()
}

func (f *frame) staticCall(site siteT, callee *ssa.Function, args []Val, pos token.Pos, cc *ssa.CallCommon) Val {
	c := f.c
	key := funcKey(callee)
	if (key == "sort.Slice" || key == "sort.SliceStable") && cc != nil && len(cc.Args) == 2 {
		// sort.Slice(x, less) rearranges the elements of the slice x and touches nothing else (the
		// comparison function is assumed to have no side effects): only x's backing array is havoced.
		if mi, ok := cc.Args[0].(*ssa.MakeInterface); ok {
			if st, ok := types.Unalias(mi.X.Type()).Underlying().(*types.Slice); ok {
				sl := f.asTerm(f.get(mi.X))
				ekey := elemKey(st.Elem())
				esort := c.elemSort(st.Elem())
				arr := c.heapGet(f.heap, ekey, esort)
				nv := c.fresh(ekey+"~sorted", arrayElemSort(esort))
				c.heapSet(f.heap, ekey, ite(eq(sBase(sl), tNil), arr, store(arr, sBase(sl), nv)))
				f.assumePermutation(sl, arr, nv)
				f.assumeSortedBy("less", sl, st.Elem(), nv, f.get(cc.Args[1]))
				c.assumed["sort.Slice rearranges the elements of its slice argument only (a permutation); its comparison function has no side effects"] = true
				c.externs[key] = true
				return Tuple{}
			}
		}
	}
	if key == "sort.Sort" && cc != nil && len(cc.Args) == 1 {
		// sort.Sort(x) for a slice type x implementing sort.Interface in the usual way (Swap exchanges
		// two elements): only x's backing array changes, and its new contents are a PERMUTATION of the
		// old ones — new[k] == old[perm[k]] for an injective perm (which permutation is left open).
		if mi, ok := cc.Args[0].(*ssa.MakeInterface); ok {
			if st, ok := types.Unalias(mi.X.Type()).Underlying().(*types.Slice); ok {
				sl := f.asTerm(f.get(mi.X))
				ekey := elemKey(st.Elem())
				esort := c.elemSort(st.Elem())
				arr := c.heapGet(f.heap, ekey, esort)
				nv := c.fresh(ekey+"~sorted", arrayElemSort(esort))
				perm := c.fresh("perm~sort", arraySort(SInt, SInt))
				oldInner := c.name("presort", sel(arr, sBase(sl)))
				c.heapSet(f.heap, ekey, ite(eq(sBase(sl), tNil), arr, store(arr, sBase(sl), nv)))
				c.counter["q"]++
				k := quote(fmt.Sprintf("q k %d", c.counter["q"]))
				c.counter["q"]++
				k2 := quote(fmt.Sprintf("q k %d", c.counter["q"]))
				off, ln := sOff(sl).S, sLen(sl).S
				c.assume(implies(f.guard, Term{fmt.Sprintf("(forall ((%s Int)) (! (=> (and (<= 0 %s) (< %s %s)) (and (<= 0 (select %s %s)) (< (select %s %s) %s) (= (select %s (+ %s %s)) (select %s (+ %s (select %s %s)))))) :pattern ((select %s (+ %s %s)))))",
					k, k, k, ln, perm.S, k, perm.S, k, ln, nv.S, off, k, oldInner.S, off, perm.S, k, nv.S, off, k), SBool}))
				c.assume(implies(f.guard, Term{fmt.Sprintf("(forall ((%s Int) (%s Int)) (=> (and (<= 0 %s) (< %s %s) (< %s %s)) (not (= (select %s %s) (select %s %s)))))",
					k, k2, k, k, k2, k2, ln, perm.S, k, perm.S, k2), SBool}))
				c.assumed["sort.Sort on a slice type permutes the elements of its argument and touches nothing else (Len/Less/Swap of the type are the usual ones: Swap exchanges two elements)"] = true
				c.externs[key] = true
				return Tuple{}
			}
		}
	}
	if (key == "slices.SortFunc" || key == "slices.SortStableFunc" || key == "slices.Sort") && cc != nil && len(cc.Args) >= 1 {
		// the generic sorts of package slices: same frame, the slice is passed as it is
		if st, ok := types.Unalias(cc.Args[0].Type()).Underlying().(*types.Slice); ok {
			sl := f.asTerm(f.get(cc.Args[0]))
			ekey := elemKey(st.Elem())
			esort := c.elemSort(st.Elem())
			arr := c.heapGet(f.heap, ekey, esort)
			nv := c.fresh(ekey+"~sorted", arrayElemSort(esort))
			c.heapSet(f.heap, ekey, ite(eq(sBase(sl), tNil), arr, store(arr, sBase(sl), nv)))
			f.assumePermutation(sl, arr, nv)
			if len(cc.Args) == 2 {
				f.assumeSortedBy("cmp", sl, st.Elem(), nv, f.get(cc.Args[1]))
			}
			c.assumed["slices.Sort / SortFunc / SortStableFunc rearrange the elements of their slice argument only (a permutation); the comparison function has no side effects"] = true
			c.externs[key] = true
			return Tuple{}
		}
	}
	if ct := c.eng.contract(key); ct != nil && !(f.c.eng.inlineOverContract[key]) {
		var obj *types.Func
		if o, ok := callee.Object().(*types.Func); ok {
			obj = o
		}
		return f.callByContract(site, ct, key, callee.Signature, callee, args, pos, obj)
	}
	if r, ok := f.knownExtern(site, callee, args, pos); ok {
		return r
	}
	if callee.Blocks != nil && f.depth < maxInlineDepth && !f.onStack(callee) && c.eng.mayInline(callee) {
		return f.inline(site, callee, args, nil, pos)
	}
	return f.unknownCall(site, key, callee.Signature, args, pos)
}

// assumePermutation: the new contents nv of the slice sl are a permutation of its old contents
// (new[k] == old[perm[k]] for an injective perm; which permutation is left open).
func (f *frame) assumePermutation(sl, arr, nv Term) {
	c := f.c
	perm := c.fresh("perm~sort", arraySort(SInt, SInt))
	oldInner := c.name("presort", sel(arr, sBase(sl)))
	c.counter["q"]++
	k := quote(fmt.Sprintf("q k %d", c.counter["q"]))
	c.counter["q"]++
	k2 := quote(fmt.Sprintf("q k %d", c.counter["q"]))
	off, ln := sOff(sl).S, sLen(sl).S
	c.assume(implies(f.guard, Term{fmt.Sprintf("(forall ((%s Int)) (! (=> (and (<= 0 %s) (< %s %s)) (and (<= 0 (select %s %s)) (< (select %s %s) %s) (= (select %s (+ %s %s)) (select %s (+ %s (select %s %s)))))) :pattern ((select %s (+ %s %s)))))",
		k, k, k, ln, perm.S, k, perm.S, k, ln, nv.S, off, k, oldInner.S, off, perm.S, k, nv.S, off, k), SBool}))
	c.assume(implies(f.guard, Term{fmt.Sprintf("(forall ((%s Int) (%s Int)) (=> (and (<= 0 %s) (< %s %s) (< %s %s)) (not (= (select %s %s) (select %s %s)))))",
		k, k2, k, k, k2, k2, ln, perm.S, k, perm.S, k2), SBool}))
}

func (f *frame) onStack(fn *ssa.Function) bool {
	for _, g := range f.c.eng.inlineStack {
		if g == fn {
			return true
		}
	}
	return fn == f.c.fn
}

func funcKey(fn *ssa.Function) string {
	if o := fn.Origin(); o != nil {
		fn = o
	}
	return fn.String()
}

// inline executes the callee's body in a nested frame.
func (f *frame) inline(site siteT, callee *ssa.Function, args []Val, bindings []Val, pos token.Pos) Val {
	c := f.c
	if callee.Blocks == nil {
		unsup("cannot inline %s: no body", callee)
	}
	if f.depth >= maxInlineDepth+2 || f.onStackClosure(callee) {
		return f.unknownCall(site, funcKey(callee), callee.Signature, args, pos)
	}
	c.inlined[funcKey(callee)] = true
	g := newFrame(c, callee)
	g.depth = f.depth + 1
	g.parent = f
	g.freeVars = bindings
	g.heap = f.heap
	g.entry = f.entry
	g.callerPos = pos
	if !pos.IsValid() {
		g.callerPos = f.callerPos
	}
	g.entryGuard = f.guard
	for i, p := range callee.Params {
		g.vals[p] = args[i]
	}
	c.eng.inlineStack = append(c.eng.inlineStack, callee)
	g.runRegion(rpo(callee), nil, nil, nil)
	c.eng.inlineStack = c.eng.inlineStack[:len(c.eng.inlineStack)-1]
	f.panics = append(f.panics, g.panics...)
	if len(g.rets) == 0 {
		// the callee never returns normally
		f.guard = tFalse
		return f.zeroResults(callee.Signature)
	}
	var conds []Term
	var heaps []*heapState
	for _, r := range g.rets {
		conds = append(conds, r.cond)
		heaps = append(heaps, r.heap)
	}
	f.heap = c.mergeHeaps(conds, heaps)
	// the caller continues only on executions where the callee returned
	retCond := c.name("ret "+callee.Name(), or(conds...))
	if retCond.S != f.guard.S {
		f.guard = retCond
	}
	n := callee.Signature.Results().Len()
	if n == 0 {
		return Tuple{}
	}
	if call, ok := site.(*ssa.Call); ok && n == 1 {
		var dt types.Type
		same := true
		for _, r := range g.rets {
			if len(r.dyn) != 1 || r.dyn[0] == nil || (dt != nil && !types.Identical(dt, r.dyn[0])) {
				same = false
				break
			}
			dt = r.dyn[0]
		}
		if same && dt != nil {
			f.dynType[call] = dt
		}
	}
	res := make([]Val, n)
	for i := 0; i < n; i++ {
		var v Val
		for j := len(g.rets) - 1; j >= 0; j-- {
			if v == nil {
				v = g.rets[j].vals[i]
			} else {
				v = f.iteVal(g.rets[j].cond, g.rets[j].vals[i], v)
			}
		}
		if t, ok := v.(Term); ok {
			v = c.name(callee.Name()+".res", t)
		}
		res[i] = v
	}
	if n == 1 {
		return res[0]
	}
	return Tuple(res)
}

func (f *frame) onStackClosure(fn *ssa.Function) bool {
	for _, g := range f.c.eng.inlineStack {
		if g == fn {
			return true
		}
	}
	return false
}

func (f *frame) zeroResults(sig *types.Signature) Val {
	n := sig.Results().Len()
	if n == 0 {
		return Tuple{}
	}
	res := make(Tuple, n)
	for i := range res {
		res[i] = f.c.zeroOf(sig.Results().At(i).Type())
	}
	if n == 1 {
		return res[0]
	}
	return res
}

// unknownCall: a call without contract and without body.
func (f *frame) unknownCall(site siteT, key string, sig *types.Signature, args []Val, pos token.Pos) Val {
	c := f.c
	if c.eng.assumedPure(key) {
		c.assumed["assumed_pure: "+key] = true
	} else {
		c.assumed["havoc_all: call to "+key+" havocs the whole heap"] = true
		f.havocAll(key)
	}
	return f.freshResults(sig, key)
}

func (f *frame) freshResults(sig *types.Signature, hint string) Val {
	n := sig.Results().Len()
	if n == 0 {
		return Tuple{}
	}
	hint = shortHint(hint)
	res := make(Tuple, n)
	for i := range res {
		res[i] = f.havocVal(sig.Results().At(i).Type(), hint+".res", f.heap)
	}
	if n == 1 {
		return res[0]
	}
	return res
}

func shortHint(s string) string {
	if i := strings.LastIndex(s, "/"); i >= 0 {
		s = s[i+1:]
	}
	return s
}

// ---------------------------------------------------------------------------
// Calls by contract

func paramNames(ct *Contract, sig *types.Signature, callee *ssa.Function) []string {
	if len(ct.Params) > 0 {
		return ct.Params
	}
	var names []string
	if callee != nil && len(callee.Params) > 0 {
		for _, p := range callee.Params {
			names = append(names, p.Name())
		}
		return names
	}
	if sig.Recv() != nil {
		names = append(names, "this")
	}
	for i := 0; i < sig.Params().Len(); i++ {
		n := sig.Params().At(i).Name()
		if n == "" || n == "_" {
			n = fmt.Sprintf("a%d", i)
		}
		names = append(names, n)
	}
	return names
}

func paramTypes(sig *types.Signature, callee *ssa.Function, nargs int, recvT types.Type) []types.Type {
	var ts []types.Type
	if callee != nil && len(callee.Params) > 0 {
		for _, p := range callee.Params {
			ts = append(ts, p.Type())
		}
		return ts
	}
	if sig.Recv() != nil {
		ts = append(ts, sig.Recv().Type())
	} else if nargs == sig.Params().Len()+1 {
		ts = append(ts, recvT)
	}
	for i := 0; i < sig.Params().Len(); i++ {
		ts = append(ts, sig.Params().At(i).Type())
	}
	return ts
}

func resultNames(ct *Contract, sig *types.Signature) []string {
	n := sig.Results().Len()
	names := make([]string, n)
	for i := 0; i < n; i++ {
		names[i] = sig.Results().At(i).Name()
		if i < len(ct.Results) {
			names[i] = ct.Results[i]
		}
	}
	return names
}

func bindResults(env *specEnv, f *frame, ct *Contract, sig *types.Signature, res []Val) {
	names := resultNames(ct, sig)
	for i, v := range res {
		sv := f.sval(v, sig.Results().At(i).Type())
		if names[i] != "" && names[i] != "_" {
			env.vars[names[i]] = sv
		}
		env.vars[fmt.Sprintf("r%d", i)] = sv
		if len(res) == 1 {
			if _, taken := env.vars["r"]; !taken {
				env.vars["r"] = sv
			}
			env.vars["result"] = sv
		}
	}
}

func (f *frame) callByContract(site siteT, ct *Contract, key string, sig *types.Signature, callee *ssa.Function, args []Val, pos token.Pos, obj *types.Func) Val {
	c := f.c
	if ct.Extern {
		c.externs[key] = true
	} else {
		c.assumed["contract-of:"+key] = true
	}
	f.callOrd[key]++
	ord := f.callOrd[key]
	pre := f.heap.clone()
	env := f.baseEnv(pre)
	env.vars = map[string]SVal{}
	env.old = pre
	names := paramNames(ct, sig, callee)
	var recvT types.Type
	if site != nil {
		if cc := callCommonOf(site); cc != nil && cc.IsInvoke() {
			recvT = cc.Value.Type()
		}
	}
	ptypes := paramTypes(sig, callee, len(args), recvT)
	if len(names) != len(args) {
		specFail("contract %s: %d parameter names for %d arguments", key, len(names), len(args))
	}
	for i, a := range args {
		var t types.Type
		if i < len(ptypes) {
			t = ptypes[i]
		}
		env.vars[names[i]] = f.sval(a, t)
	}
	if callee != nil && callee.Pkg != nil {
		env.pkg = callee.Pkg.Pkg
	} else if obj != nil && obj.Pkg() != nil {
		env.pkg = obj.Pkg()
	}
	var deferred []Let
	for _, l := range ct.Lets {
		if v, ok := tryEval(env, l.E); ok {
			env.vars[l.Name] = v
		} else {
			deferred = append(deferred, l)
		}
	}
	caller := shortFn(c.fn)
	for i, rq := range ct.Requires {
		g := f.obligeClause("callpre", fmt.Sprintf("%s#callpre:%s#%d.req%d", caller, shortKey(key), ord, i+1), env, rq, f.guard, f.pos(pos), false)
		c.assume(implies(f.guard, g))
	}
	// recursion: the callee is the function under verification itself — its variant must be smaller
	// for the call's arguments than it was at entry (and not negative at entry)
	if ct.Decreases != nil && callee != nil && f.top && callee == f.fn && f.fnVariant0.S != "" {
		v1 := env.eval(ct.Decreases.E).T
		c.oblige("decreases", fmt.Sprintf("%s#decreases@call%d", caller, ord), f.guard, and(ge(f.fnVariant0, tZero), lt(v1, f.fnVariant0)), f.pos(pos), ct.Decreases.Text)
	}
	// frame
	f.applyModifies(ct, env, key)
	// results
	n := sig.Results().Len()
	res := make([]Val, n)
	if ct.Pure && n >= 1 && obj != nil && ct.Opts["fn"] != "off" {
		// pure function: each result is a function of the arguments (and nothing else)
		var ts []Term
		for _, a := range args {
			ts = append(ts, f.asTerm(a))
		}
		for i := 0; i < n; i++ {
			r := c.name(shortHint(key)+".res", c.pureResultApp(obj, ts, sig.Results().At(i).Type(), i, n))
			c.assume(implies(f.guard, c.typeInv(r, sig.Results().At(i).Type(), c.nalloc(f.heap), 0)))
			res[i] = r
		}
	} else {
		for i := 0; i < n; i++ {
			res[i] = f.havocVal(sig.Results().At(i).Type(), shortHint(key)+".res", f.heap)
		}
	}
	post := f.baseEnv(f.heap)
	post.vars = cloneMap(env.vars)
	post.old = pre
	post.pkg = env.pkg
	bindResults(post, f, ct, sig, res)
	for _, l := range deferred {
		post.vars[l.Name] = post.eval(l.E)
	}
	for _, en := range ct.Ensures {
		if strings.Contains(en.Text, "local(") {
			continue // clauses over the callee's locals are not visible to callers
		}
		f.assumeClause(post, en, f.guard)
		f.noteDynTypes(en.E, post, site, res)
	}
	if n == 0 {
		return Tuple{}
	}
	if n == 1 {
		return res[0]
	}
	return Tuple(res)
}

func callCommonOf(in siteT) *ssa.CallCommon {
	switch x := in.(type) {
	case *ssa.Call:
		return &x.Call
	case *ssa.Defer:
		return &x.Call
	case *ssa.Go:
		return &x.Call
	}
	return nil
}

func shortKey(k string) string {
	// strip package paths: keep the last path element
	out := k
	for {
		i := strings.Index(out, "/")
		if i < 0 {
			break
		}
		// remove from the previous delimiter to the slash
		j := strings.LastIndexAny(out[:i], "(* ")
		out = out[:j+1] + out[i+1:]
	}
	return out
}

// noteDynTypes records `typeis(result, "T")` conjuncts of a postcondition as executor
// knowledge for devirtualisation.
func (f *frame) noteDynTypes(e Expr, env *specEnv, site siteT, res []Val) {
	switch x := e.(type) {
	case *EBinary:
		if x.Op == "&&" {
			f.noteDynTypes(x.X, env, site, res)
			f.noteDynTypes(x.Y, env, site, res)
		}
	case *ECall:
		if x.Fun == "typeis" && len(x.Args) == 2 {
			id, ok := x.Args[0].(*EIdent)
			name, ok2 := x.Args[1].(*EStr)
			if !ok || !ok2 {
				return
			}
			t := f.c.eng.lookupType(env.pkg, name.V)
			call, isCall := site.(*ssa.Call)
			if t == nil || !isCall {
				return
			}
			if len(res) == 1 {
				if rv, ok := env.vars[id.Name]; ok && rv.T.S == f.asTerm(res[0]).S {
					f.dynType[call] = t
				}
			}
		}
	}
}

// noteParamTypes records `typeis(param, "T")` conjuncts of a precondition of the function
// under verification.
func (f *frame) noteParamTypes(e Expr, env *specEnv) {
	switch x := e.(type) {
	case *EBinary:
		if x.Op == "&&" {
			f.noteParamTypes(x.X, env)
			f.noteParamTypes(x.Y, env)
		}
	case *ECall:
		if x.Fun == "typeis" && len(x.Args) == 2 {
			id, ok := x.Args[0].(*EIdent)
			name, ok2 := x.Args[1].(*EStr)
			if !ok || !ok2 {
				return
			}
			t := f.c.eng.lookupType(env.pkg, name.V)
			if t == nil {
				return
			}
			for _, p := range f.fn.Params {
				if p.Name() == id.Name {
					f.dynType[p] = t
				}
			}
		}
	}
}

// applyModifies havocs what the contract allows the callee to change.
func (f *frame) applyModifies(ct *Contract, env *specEnv, key string) {
	c := f.c
	if ct.Pure {
		return
	}
	if !ct.HasMod {
		c.assumed["havoc_all: contract of "+key+" has no modifies clause"] = true
		f.havocAll(key)
		return
	}
	// allocation is always allowed
	old := c.nalloc(f.heap)
	nn := c.fresh("nalloc~call", SInt)
	c.assume(ge(nn, old))
	f.heap.arrays[allocKey] = nn
	c.writes[allocKey] = true
	for _, m := range ct.Modifies {
		f.havocItem(m, env, key)
	}
}

func (f *frame) havocItem(item string, env *specEnv, key string) {
	c := f.c
	if item == "*" {
		f.havocAll(key)
		return
	}
	for _, mk := range f.modKeys(item, env) {
		srt := c.eng.heapSorts[mk.key]
		arr := c.heapGet(f.heap, mk.key, srt)
		if mk.whole {
			c.heapSet(f.heap, mk.key, c.fresh(mk.key+"~call", srt))
			continue
		}
		nv := c.fresh(mk.key+"~callv", arrayElemSort(srt))
		if strings.HasPrefix(mk.key, "E ") {
			// s[*] of a nil slice: there is no backing array to modify
			c.heapSet(f.heap, mk.key, ite(eq(mk.at, tNil), arr, store(arr, mk.at, nv)))
		} else {
			c.heapSet(f.heap, mk.key, store(arr, mk.at, nv))
		}
	}
}

type modKey struct {
	key   string
	at    Term
	whole bool
}

// modKeys resolves a modifies item to heap keys (and the index modified).
func (f *frame) modKeys(item string, env *specEnv) []modKey {
	c := f.c
	if strings.HasPrefix(item, "ghost ") {
		g := strings.TrimSpace(item[6:])
		gf := c.eng.ghosts[g]
		if gf == nil {
			specFail("modifies: unknown ghost field %s", g)
		}
		key := "G " + g
		c.heapGet(f.heap, key, arraySort(SInt, specSort(gf.Sort)))
		return []modKey{{key: key, whole: true}}
	}
	if strings.HasSuffix(item, "[*]") {
		e, err := parseExpr(strings.TrimSuffix(item, "[*]"))
		if err != nil {
			specFail("modifies %q: %v", item, err)
		}
		v := env.eval(e)
		st, ok := types.Unalias(v.GoT).Underlying().(*types.Slice)
		if !ok {
			specFail("modifies %q: not a slice", item)
		}
		key := elemKey(st.Elem())
		c.heapGet(f.heap, key, c.elemSort(st.Elem()))
		return []modKey{{key: key, at: sBase(v.T)}}
	}
	if strings.HasSuffix(item, ".*") {
		e, err := parseExpr(strings.TrimSuffix(item, ".*"))
		if err != nil {
			specFail("modifies %q: %v", item, err)
		}
		v := env.eval(e)
		pt, st, ok := isPtrToStruct(v.GoT)
		if !ok {
			specFail("modifies %q: not a pointer to struct", item)
		}
		var out []modKey
		for i := 0; i < st.NumFields(); i++ {
			key := fieldKey(pt, st, i)
			c.heapGet(f.heap, key, c.fieldSort(st, i))
			out = append(out, modKey{key: key, at: v.T})
		}
		return out
	}
	e, err := parseExpr(item)
	if err != nil {
		specFail("modifies %q: %v", item, err)
	}
	sel, ok := e.(*ESel)
	if !ok {
		if idx, ok := e.(*EIndex); ok {
			// m[k] for maps: whole map arrays at m
			v := env.eval(idx.X)
			if _, isMap := types.Unalias(v.GoT).Underlying().(*types.Map); isMap {
				f.mapArrays(v.GoT, f.heap)
				dk, vk, lk := mapKeys(v.GoT)
				return []modKey{{key: dk, at: v.T}, {key: vk, at: v.T}, {key: lk, at: v.T}}
			}
		}
		if id, ok := e.(*EIdent); ok {
			v := env.eval(id)
			if v.GoT != nil {
				if _, isMap := types.Unalias(v.GoT).Underlying().(*types.Map); isMap {
					f.mapArrays(v.GoT, f.heap)
					dk, vk, lk := mapKeys(v.GoT)
					return []modKey{{key: dk, at: v.T}, {key: vk, at: v.T}, {key: lk, at: v.T}}
				}
				if pt, ok := types.Unalias(v.GoT).Underlying().(*types.Pointer); ok {
					if _, isStruct := structOf(pt.Elem()); !isStruct {
						key := cellKey(pt.Elem())
						c.heapGet(f.heap, key, c.cellSort(pt.Elem()))
						return []modKey{{key: key, at: v.T}}
					}
				}
			}
		}
		specFail("modifies %q: want x.f, x.*, s[*], m, p or ghost g", item)
	}
	v := env.eval(sel.X)
	if g := c.eng.ghosts[sel.Name]; g != nil {
		key := "G " + g.Name
		c.heapGet(f.heap, key, arraySort(SInt, specSort(g.Sort)))
		return []modKey{{key: key, at: v.T}}
	}
	pt, st, ok := isPtrToStruct(v.GoT)
	if !ok {
		specFail("modifies %q: receiver is not a pointer to struct (%v)", item, v.GoT)
	}
	_, path := findFieldPath(st, sel.Name)
	if len(path) == 0 {
		specFail("modifies %q: no such field", item)
	}
	key := fieldKey(pt, st, path[0])
	c.heapGet(f.heap, key, c.fieldSort(st, path[0]))
	return []modKey{{key: key, at: v.T}}
}

// ---------------------------------------------------------------------------
// Defers

func (f *frame) runDefers() {
	c := f.c
	for i := len(f.defers) - 1; i >= 0; i-- {
		d := f.defers[i]
		g0 := f.guard
		h0 := f.heap.clone()
		f.guard = c.name("deferguard", and(g0, d.guard))
		f.doCall(deferSite{d}, d.call, d.fnVal, d.args, d.pos)
		taken := f.guard
		f.heap = c.mergeHeaps([]Term{taken, not(taken)}, []*heapState{f.heap, h0})
		f.guard = g0
	}
}

// deferSite adapts a deferred call to the ssa.Instruction interface used for positions.
type deferSite struct{ d deferRec }

func (d deferSite) Pos() token.Pos { return d.d.pos }

// ---------------------------------------------------------------------------
// Builtins

func (f *frame) builtin(site siteT, b *ssa.Builtin, cc *ssa.CallCommon, args []Val, pos token.Pos) Val {
	c := f.c
	argT := func(i int) types.Type { return cc.Args[i].Type() }
	switch b.Name() {
	case "len", "cap":
		v := f.asTerm(args[0])
		switch t := types.Unalias(argT(0)).Underlying().(type) {
		case *types.Slice:
			if b.Name() == "len" {
				return sLen(v)
			}
			return sCap(v)
		case *types.Basic:
			return mk(SInt, "strlen", v)
		case *types.Map:
			_, _, ln, _ := f.mapArrays(argT(0), f.heap)
			r := c.name("maplen", ite(eq(v, tNil), tZero, sel(ln, v)))
			c.assume(ge(r, tZero))
			return r
		case *types.Array:
			return intLit(t.Len())
		case *types.Pointer:
			return intLit(types.Unalias(t.Elem()).Underlying().(*types.Array).Len())
		case *types.Chan:
			r := c.fresh("chanlen", SInt)
			c.assume(ge(r, tZero))
			return r
		}
	case "append":
		return f.builtinAppend(site, cc, args)
	case "copy":
		return f.builtinCopy(site, cc, args)
	case "min", "max":
		r := f.asTerm(args[0])
		for _, a := range args[1:] {
			x := f.asTerm(a)
			cond := le(r, x)
			if b.Name() == "max" {
				cond = ge(r, x)
			}
			r = ite(cond, r, x)
		}
		return c.name(b.Name(), r)
	case "delete":
		f.mapDelete(args[0], args[1], argT(0))
		return Tuple{}
	case "print", "println":
		return Tuple{}
	case "close":
		f.abstraction("close(chan) modelled as a no-op on tracked state")
		return Tuple{}
	case "ssa:wrapnilchk":
		return args[0]
	case "clear":
		if _, ok := types.Unalias(argT(0)).Underlying().(*types.Map); ok {
			m := f.asTerm(args[0])
			dom, _, ln, mt := f.mapArrays(argT(0), f.heap)
			dk, _, lk := mapKeys(argT(0))
			ds := arraySort(c.sortOf(mt.Key()), SBool)
			c.heapSet(f.heap, dk, store(dom, m, Term{fmt.Sprintf("((as const %s) false)", ds), ds}))
			c.heapSet(f.heap, lk, store(ln, m, tZero))
			return Tuple{}
		}
		if st, ok := types.Unalias(argT(0)).Underlying().(*types.Slice); ok {
			s := f.asTerm(args[0])
			et := st.Elem()
			key := elemKey(et)
			arr := c.heapGet(f.heap, key, c.elemSort(et))
			inner := arraySort(SInt, c.sortOf(et))
			oldInner := sel(arr, sBase(s))
			newInner := c.fresh("cleardata", inner)
			c.counter["q"]++
			qi := quote(fmt.Sprintf("q i %d", c.counter["q"]))
			c.assume(Term{fmt.Sprintf("(forall ((%s Int)) (! (= (select %s %s) (ite (and (<= %s %s) (< %s (+ %s %s))) %s (select %s %s))) :pattern ((select %s %s))))",
				qi, newInner.S, qi, sOff(s).S, qi, qi, sOff(s).S, sLen(s).S, c.zeroOf(et).S, oldInner.S, qi, newInner.S, qi), SBool})
			c.heapSet(f.heap, key, store(arr, sBase(s), newInner))
			return Tuple{}
		}
	}
	unsup("builtin %s", b.Name())
	return nil
}

func (f *frame) builtinAppend(site siteT, cc *ssa.CallCommon, args []Val) Val {
	c := f.c
	s := f.asTerm(args[0])
	st := types.Unalias(cc.Args[0].Type()).Underlying().(*types.Slice)
	et := st.Elem()
	key := elemKey(et)
	esort := c.elemSort(et)
	inner := arraySort(SInt, c.sortOf(et))
	n := sLen(s)
	var m Term
	var srcAt func(i Term) Term
	t := f.asTerm(args[1])
	if t.Sort == SStr {
		m = mk(SInt, "strlen", t)
		srcAt = func(i Term) Term { return mk(SInt, "strat", t, i) }
	} else {
		m = sLen(t)
		arr0 := c.heapGet(f.heap, key, esort)
		srcAt = func(i Term) Term { return sel(sel(arr0, sBase(t)), add(sOff(t), i)) }
	}
	m = simplifyInt(m)
	if k, ok := c.eng.constLen[t.S]; ok {
		m = intLit(k)
	}
	arr := c.heapGet(f.heap, key, esort)
	total := c.name("applen", simplifyInt(add(n, m)))
	inplace := c.name("inplace", le(total, sCap(s)))
	if s.S == nilSlice.S {
		inplace = tFalse
		if m.S == "0" {
			return t // append(nil, empty...) — result is nil or empty; keep operand
		}
	}
	// fresh backing array for the reallocating case
	h0 := f.heap
	nb := f.alloc("appendbase")
	ncap := c.fresh("appendcap", SInt)
	c.assume(and(ge(ncap, total), le(ncap, Term{"4611686018427387904", SInt})))
	rbase := ite(inplace, sBase(s), nb)
	roff := ite(inplace, sOff(s), tZero)
	rcap := ite(inplace, sCap(s), ncap)
	res := c.name("appendres", mkSlice(rbase, roff, total, rcap))
	_ = h0
	oldInner := sel(arr, sBase(s))
	var newInner Term
	if k, ok := smallConst(m); ok && k <= 4 {
		// exact stores for short appended slices
		// in place: old backing array with the new elements stored
		ip := oldInner
		for i := int64(0); i < k; i++ {
			ip = store(ip, simplifyInt(add(add(sOff(s), n), intLit(i))), srcAt(intLit(i)))
		}
		// reallocated: fresh array A with A[i] = old[off+i] for i < n, then the new elements
		var re Term
		if n.S == "0" || s.S == nilSlice.S {
			re = Term{fmt.Sprintf("((as const %s) %s)", inner, c.zeroOf(et).S), inner}
		} else {
			re = c.fresh("appenddata", inner)
			c.counter["q"]++
			qi := quote(fmt.Sprintf("q i %d", c.counter["q"]))
			c.assume(Term{fmt.Sprintf("(forall ((%s Int)) (! (=> (and (<= 0 %s) (< %s %s)) (= (select %s %s) (select %s (+ %s %s)))) :pattern ((select %s %s))))",
				qi, qi, qi, n.S, re.S, qi, oldInner.S, sOff(s).S, qi, re.S, qi), SBool})
		}
		for i := int64(0); i < k; i++ {
			re = store(re, simplifyInt(add(n, intLit(i))), srcAt(intLit(i)))
		}
		if inplace.IsFalse() {
			newInner = re
		} else {
			newInner = ite(inplace, ip, re)
		}
	} else {
		newInner = c.fresh("appenddata", inner)
		c.counter["q"]++
		qi := quote(fmt.Sprintf("q i %d", c.counter["q"]))
		qT := Term{qi, SInt}
		// kept prefix
		c.assume(Term{fmt.Sprintf("(forall ((%s Int)) (! (=> (and (<= 0 %s) (< %s %s)) (= (select %s (+ %s %s)) (select %s (+ %s %s)))) :pattern ((select %s (+ %s %s)))))",
			qi, qi, qi, n.S, newInner.S, roff.S, qi, oldInner.S, sOff(s).S, qi, newInner.S, roff.S, qi), SBool})
		// appended part
		c.assume(Term{fmt.Sprintf("(forall ((%s Int)) (! (=> (and (<= 0 %s) (< %s %s)) (= (select %s (+ %s %s %s)) %s)) :pattern ((select %s (+ %s %s %s)))))",
			qi, qi, qi, m.S, newInner.S, roff.S, n.S, qi, srcAt(qT).S, newInner.S, roff.S, n.S, qi), SBool})
		// in place: everything outside the appended window is unchanged
		c.assume(implies(inplace, Term{fmt.Sprintf("(forall ((%s Int)) (! (=> (or (< %s (+ %s %s)) (>= %s (+ %s %s))) (= (select %s %s) (select %s %s))) :pattern ((select %s %s))))",
			qi, qi, sOff(s).S, n.S, qi, sOff(s).S, total.S, newInner.S, qi, oldInner.S, qi, newInner.S, qi), SBool}))
		// the same two facts indexed absolutely, with the read of the new array as trigger (what the
		// solvers' E-matching and the instantiation prover can use directly)
		c.assume(Term{fmt.Sprintf("(forall ((%s Int)) (! (=> (and (<= %s %s) (< %s (+ %s %s))) (= (select %s %s) (select %s (+ %s (- %s %s))))) :pattern ((select %s %s))))",
			qi, roff.S, qi, qi, roff.S, n.S, newInner.S, qi, oldInner.S, sOff(s).S, qi, roff.S, newInner.S, qi), SBool})
		c.assume(Term{fmt.Sprintf("(forall ((%s Int)) (! (=> (and (<= (+ %s %s) %s) (< %s (+ %s %s))) (= (select %s %s) %s)) :pattern ((select %s %s))))",
			qi, roff.S, n.S, qi, qi, roff.S, total.S, newInner.S, qi, srcAt(Term{fmt.Sprintf("(- %s (+ %s %s))", qi, roff.S, n.S), SInt}).S, newInner.S, qi), SBool})
	}
	// appending nothing writes nothing (in particular not "to" a nil slice)
	cur := c.heapGet(f.heap, key, esort)
	c.heapSet(f.heap, key, ite(eq(m, tZero), cur, store(cur, rbase, newInner)))
	return res
}

// simplifyInt folds trivial integer sums (keeps generated terms readable).
func simplifyInt(t Term) Term {
	s := t.S
	var a, b int64
	if n, _ := fmt.Sscanf(s, "(+ %d %d)", &a, &b); n == 2 && fmt.Sprintf("(+ %d %d)", a, b) == s {
		return intLit(a + b)
	}
	if n, _ := fmt.Sscanf(s, "(- %d %d)", &a, &b); n == 2 && fmt.Sprintf("(- %d %d)", a, b) == s {
		return intLit(a - b)
	}
	if strings.HasPrefix(s, "(+ 0 ") {
		inner := s[5 : len(s)-1]
		if sexpEnd(inner, 0) == len(inner) {
			return Term{inner, SInt}
		}
	}
	if strings.HasPrefix(s, "(slen (mkslice ") {
		// (slen (mkslice b o l c)) -> l
		body := s[len("(slen (mkslice ") : len(s)-2]
		i := sexpEnd(body, 0)
		j := sexpEnd(body, i)
		k := sexpEnd(body, j)
		return simplifyInt(Term{strings.TrimSpace(body[j:k]), SInt})
	}
	return t
}

func (f *frame) builtinCopy(site siteT, cc *ssa.CallCommon, args []Val) Val {
	c := f.c
	dst := f.asTerm(args[0])
	src := f.asTerm(args[1])
	st := types.Unalias(cc.Args[0].Type()).Underlying().(*types.Slice)
	et := st.Elem()
	key := elemKey(et)
	esort := c.elemSort(et)
	inner := arraySort(SInt, c.sortOf(et))
	arr := c.heapGet(f.heap, key, esort)
	var m Term
	var srcAt func(i string) string
	if src.Sort == SStr {
		m = mk(SInt, "strlen", src)
		srcAt = func(i string) string { return fmt.Sprintf("(strat %s %s)", src.S, i) }
	} else {
		m = sLen(src)
		srcAt = func(i string) string {
			return fmt.Sprintf("(select (select %s %s) (+ %s %s))", arr.S, sBase(src).S, sOff(src).S, i)
		}
	}
	n := c.name("copyn", mk(SInt, "imin", sLen(dst), m))
	oldInner := sel(arr, sBase(dst))
	newInner := c.fresh("copydata", inner)
	c.counter["q"]++
	qi := quote(fmt.Sprintf("q i %d", c.counter["q"]))
	c.assume(Term{fmt.Sprintf("(forall ((%s Int)) (! (=> (and (<= 0 %s) (< %s %s)) (= (select %s (+ %s %s)) %s)) :pattern ((select %s (+ %s %s)))))",
		qi, qi, qi, n.S, newInner.S, sOff(dst).S, qi, srcAt(qi), newInner.S, sOff(dst).S, qi), SBool})
	c.assume(Term{fmt.Sprintf("(forall ((%s Int)) (! (=> (or (< %s %s) (>= %s (+ %s %s))) (= (select %s %s) (select %s %s))) :pattern ((select %s %s))))",
		qi, qi, sOff(dst).S, qi, sOff(dst).S, n.S, newInner.S, qi, oldInner.S, qi, newInner.S, qi), SBool})
	c.heapSet(f.heap, key, store(arr, sBase(dst), newInner))
	return n
}

// knownExtern gives built-in meaning to a few standard-library functions.
func (f *frame) knownExtern(site siteT, callee *ssa.Function, args []Val, pos token.Pos) (Val, bool) {
	c := f.c
	key := funcKey(callee)
	switch key {
	case "math.IsNaN":
		c.assumed["float64 arithmetic is modelled over the reals (no rounding, NaN, Inf)"] = true
		r := c.fresh("isnan", SBool)
		return r, true
	case "math.Float64bits", "math.Float64frombits":
		c.decl("fun "+key, fmt.Sprintf("(declare-fun %s (%s) %s)", quote(key), f.asTerm(args[0]).Sort, c.sortOf(callee.Signature.Results().At(0).Type())))
		r := mk(c.sortOf(callee.Signature.Results().At(0).Type()), quote(key), f.asTerm(args[0]))
		c.assume(c.typeInv(r, callee.Signature.Results().At(0).Type(), tZero, 0))
		return r, true
	}
	return nil, false
}

// tryEval evaluates a let at function entry; lets that mention results are deferred to the
// post-state.
func tryEval(env *specEnv, e Expr) (v SVal, ok bool) {
	defer func() {
		if r := recover(); r != nil {
			if se, isSpec := r.(specErr); isSpec && strings.Contains(se.msg, "unknown identifier") {
				ok = false
				return
			}
			panic(r)
		}
	}()
	return env.eval(e), true
}
