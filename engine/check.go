package main

import (
	"fmt"
	"go/token"
	"os"
)

func token_pos(li *loopInfo) token.Pos {
	for _, in := range li.header.Instrs {
		if in.Pos().IsValid() {
			return in.Pos()
		}
	}
	for _, s := range li.header.Succs {
		for _, in := range s.Instrs {
			if in.Pos().IsValid() {
				return in.Pos()
			}
		}
	}
	return token.NoPos
}

func cmdCheck(args []string) {
	fmt.Fprintln(os.Stderr, "not yet")
	os.Exit(2)
}
