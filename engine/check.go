package main

import (
	"encoding/json"
	"flag"
	"fmt"
	"go/token"
	"os"
	"os/exec"
	"path/filepath"
	"sort"
	"strconv"
	"strings"
	"time"
)

func token_pos(li *loopInfo) token.Pos {
	for _, in := range li.header.Instrs {
		if in.Pos().IsValid() {
			return in.Pos()
		}
	}
	for _, s := range li.header.Succs {
		for _, in := range s.Instrs {
			if in.Pos().IsValid() {
				return in.Pos()
			}
		}
	}
	return token.NoPos
}

// PropConfig describes how one property is decided (props.json).
type PropConfig struct {
	Packages    []string `json:"packages"`
	Functions   []string `json:"functions"` // "name" (first package) or "pkgdir:name"
	Claim       string   `json:"claim"`
	NotCovered  []string `json:"not_covered"`
	ReplayPkg   string   `json:"replay_pkg"`  // package dir (relative to repo) the harness is injected into
	ReplayFile  string   `json:"replay_file"` // harness source under /verif/replay
	ReplayTags  string   `json:"replay_tags"`
	ReplayAlt   map[string][]string `json:"replay_alt"` // substring of the obligation's function -> [package dir, harness file]
	Bounded     []string `json:"bounded"`
	ExtraTrust  []string `json:"extra_trust"`
	MinOblig    int      `json:"min_obligations"`
	Lemmas      []string `json:"lemmas"`
	QuickMs     int      `json:"quick_timeout_ms"`
	ThoroughMs  int      `json:"thorough_timeout_ms"`
}

type KnownFinding struct {
	Property   string `json:"property"`
	Obligation string `json:"obligation"`
	What       string `json:"what"`
	Input      string `json:"input"`
	Status     string `json:"status"` // "open" or "fixed"
	Commit     string `json:"commit,omitempty"`
}

func loadProps() map[string]*PropConfig {
	data, err := os.ReadFile(verifRoot() + "/props.json")
	if err != nil {
		fmt.Fprintln(os.Stderr, "props.json:", err)
		os.Exit(2)
	}
	m := map[string]*PropConfig{}
	if err := json.Unmarshal(data, &m); err != nil {
		fmt.Fprintln(os.Stderr, "props.json:", err)
		os.Exit(2)
	}
	return m
}

func loadKnown() []KnownFinding {
	data, err := os.ReadFile(verifRoot() + "/known_findings.json")
	if err != nil {
		return nil
	}
	var ks []KnownFinding
	if err := json.Unmarshal(data, &ks); err != nil {
		fmt.Fprintln(os.Stderr, "known_findings.json:", err)
		os.Exit(2)
	}
	return ks
}

type oblSample struct {
	Obligation string `json:"obligation"`
	Kind       string `json:"kind"`
	Where      string `json:"where"`
	Clause     string `json:"clause,omitempty"`
	Status     string `json:"status"`
	Solver     string `json:"solver"`
	Ms         int64  `json:"ms"`
}

// govc check <ID> [--tier quick|thorough]
func cmdCheck(args []string) {
	fs := flag.NewFlagSet("check", flag.ExitOnError)
	tier := fs.String("tier", "quick", "quick|thorough")
	keep := fs.Bool("keep", false, "keep SMT files")
	noReplay := fs.Bool("no-replay", false, "skip replay")
	// allow the ID before the flags
	var id string
	if len(args) > 0 && !strings.HasPrefix(args[0], "-") {
		id = args[0]
		args = args[1:]
	}
	fs.Parse(args)
	if id == "" && fs.NArg() > 0 {
		id = fs.Arg(0)
	}
	if t := os.Getenv("VERIF_TIER"); t != "" && *tier == "quick" {
		*tier = t
	}
	seed := 1
	if s := os.Getenv("VERIF_SEED"); s != "" {
		if n, err := strconv.Atoi(s); err == nil {
			seed = n
		}
	}
	props := loadProps()
	pc := props[id]
	if pc == nil {
		fmt.Fprintln(os.Stderr, "unknown property", id)
		os.Exit(2)
	}
	start := time.Now()
	timeout := 40000
	if pc.QuickMs > 0 {
		timeout = pc.QuickMs
	}
	if *tier == "thorough" {
		timeout = 120000
		if pc.ThoroughMs > 0 {
			timeout = pc.ThoroughMs
		}
	}
	eng, err := loadEngine(repoRoot(), pc.Packages, stdContractFiles())
	if err != nil {
		fmt.Printf("ERROR property=%s engine could not load the packages or bind the contracts: %v\n", id, err)
		os.Exit(2)
	}
	work := filepath.Join(verifRoot(), ".work", id+"-"+*tier)
	os.RemoveAll(work)
	os.MkdirAll(work, 0o755)
	if !*keep {
		defer os.RemoveAll(work)
	}
	var keys []string
	for _, fn := range pc.Functions {
		pkgDir := pc.Packages[0]
		name := fn
		if i := strings.Index(fn, ":"); i >= 0 && !strings.HasPrefix(fn, "(") {
			pkgDir, name = fn[:i], fn[i+1:]
		}
		pkgPath := repoModule + "/" + strings.TrimPrefix(pkgDir, "./")
		keys = append(keys, qualify(pkgPath, name))
	}
	known := loadKnown()
	isKnown := func(obl string) *KnownFinding {
		for i := range known {
			if known[i].Property == id && known[i].Status == "open" && known[i].Obligation == obl {
				return &known[i]
			}
		}
		return nil
	}
	var samples []oblSample
	var failed []*Verdict
	failedCtx := map[*Verdict]*FuncResult{}
	total, discharged := 0, 0
	skipped := 0
	bindViolations := 0
	var solverMs int64
	assumptions := map[string]bool{}
	externs := map[string]bool{}
	inlined := map[string]bool{}
	var funcs []string
	bySolver := map[string]int{}
	engineErrors := 0
	knownHit := map[string]bool{}
	if len(pc.Lemmas) > 0 {
		keys = append(keys, "LEMMAS:"+repoModule+"/"+strings.TrimPrefix(pc.Packages[0], "./"))
	}
	for _, k := range keys {
		var res *FuncResult
		if strings.HasPrefix(k, "LEMMAS:") {
			res = eng.verifyLemmas(strings.TrimPrefix(k, "LEMMAS:"), pc.Lemmas)
			if res.Err == nil {
				eng.contracts[k] = &Contract{} // lemmas need no function contract
			}
		} else {
			res = eng.verifyFunction(k)
		}
		if res.Err != nil {
			// The contract no longer binds to the code (a variable, loop or call it names is gone), so
			// its obligations cannot even be generated. That alone is "undecided", not a violation —
			// unless the property's replay harness shows a failing input on the real code: then the
			// obligations that were discharged on the unchanged tree are reported as failed.
			if pc.ReplayFile != "" && !*noReplay {
				os.MkdirAll(filepath.Join(verifRoot(), "replays"), 0o755)
				rp := filepath.Join(verifRoot(), "replays", id+"-"+sanitizeFile(shortKey(k))+"_contract-binds.json")
				if d := os.Getenv("GOVC_REPLAY_DIR"); d != "" {
					os.MkdirAll(d, 0o755)
					rp = filepath.Join(d, id+"-"+sanitizeFile(shortKey(k))+"_contract-binds.json")
				}
				rep := map[string]interface{}{"property": id, "obligation": shortKey(k) + "#contract-binds", "function": k, "kind": "contract-binds",
					"solver_status": "not generated", "solver_output": fmt.Sprint(res.Err), "model": map[string]string{}}
				writeJSON(rp, rep)
				out, ok := runReplay(pc, id, rp)
				rep["replay_output"] = out
				rep["reproduced"] = ok
				writeJSON(rp, rep)
				if ok {
					fmt.Printf("VIOLATION property=%s replay=%s\n", id, rp)
					fmt.Printf("  failed obligation: %s#contract-binds: the contract of %s cannot be established on this code (%v) and the replay harness reproduces a violation of the property on the real code\n", shortKey(k), shortKey(k), res.Err)
					bindViolations++
					continue
				}
			}
			fmt.Printf("ERROR property=%s function %s cannot be decided: %v\n", id, k, res.Err)
			engineErrors++
			continue
		}
		if eng.contracts[k] == nil {
			fmt.Printf("ERROR property=%s function %s has no contract\n", id, k)
			engineErrors++
			continue
		}
		funcs = append(funcs, shortKey(k))
		vs := solveAll(res.Ctx, res.Ctx.obls, work, funcTimeout(eng, k, timeout), 8, seed)
		for _, v := range vs {
			total++
			solverMs += v.Millis
			good := verdictGood(v)
			st := v.Status
			if v.Obl.WantSat {
				if good && v.Status == "sat" {
					st = "sat(expected: non-vacuous)"
				} else if good {
					st = v.Status + "(vacuity check: assumptions not shown contradictory)"
				} else {
					st = v.Status + "(VACUOUS?)"
				}
			}
			samples = append(samples, oblSample{v.Obl.Name, v.Obl.Kind, fmt.Sprintf("%s:%d", relPath(v.Obl.Pos.Filename), v.Obl.Pos.Line), v.Obl.Text, st, v.Solver, v.Millis})
			if v.Status == "skipped" {
				skipped++
				continue
			}
			if good {
				discharged++
				bySolver[v.Solver]++
			} else {
				failed = append(failed, v)
				failedCtx[v] = res
			}
		}
		for a := range res.Ctx.assumed {
			if strings.HasPrefix(a, "contract-of:") {
				k2 := strings.TrimPrefix(a, "contract-of:")
				proved := false
				for _, kk := range keys {
					if kk == k2 {
						proved = true
					}
				}
				if !proved {
					assumptions["in-package contract used modularly but NOT proved by this check: "+shortKey(k2)] = true
				}
				continue
			}
			assumptions[a] = true
		}
		for a := range res.Ctx.externs {
			externs[a] = true
		}
		for a := range res.Ctx.inlined {
			inlined[a] = true
		}
	}
	// report
	violations := 0
	os.MkdirAll(filepath.Join(verifRoot(), "replays"), 0o755)
	// replay budget: refutations with a model first; at most maxReplays harness runs per check
	sort.SliceStable(failed, func(i, j int) bool { return len(failed[i].Model) > 0 && len(failed[j].Model) == 0 })
	const maxReplays = 4
	replays := 0
	for _, v := range failed {
		if kf := isKnown(v.Obl.Name); kf != nil {
			knownHit[v.Obl.Name] = true
			fmt.Printf("KNOWN-FINDING: property=%s %s (obligation %s)\n", id, kf.What, v.Obl.Name)
			discharged++ // accounted for: recorded finding
			continue
		}
		violations++
		rp := filepath.Join(verifRoot(), "replays", id+"-"+sanitizeFile(v.Obl.Name)+".json")
		if d := os.Getenv("GOVC_REPLAY_DIR"); d != "" {
			os.MkdirAll(d, 0o755)
			rp = filepath.Join(d, id+"-"+sanitizeFile(v.Obl.Name)+".json")
		}
		rep := map[string]interface{}{
			"property": id, "obligation": v.Obl.Name, "function": v.Obl.Func, "kind": v.Obl.Kind,
			"where": fmt.Sprintf("%s:%d", relPath(v.Obl.Pos.Filename), v.Obl.Pos.Line), "clause": v.Obl.Text,
			"solver_status": v.Status, "solver": v.Solver, "attempts": v.Attempts, "model": v.Model,
			"solver_output": firstLines(v.Output, 40),
		}
		reproduced := false
		if pc.ReplayFile != "" && !*noReplay && !v.Obl.WantSat && replays >= maxReplays {
			rep["replay_output"] = fmt.Sprintf("not replayed: the replay budget of this run (%d harness runs) was used by other failed obligations", maxReplays)
		}
		if pc.ReplayFile != "" && !*noReplay && !v.Obl.WantSat && replays < maxReplays {
			replays++
			writeJSON(rp, rep)
			out, ok := runReplay(pc, id, rp)
			rep["replay_output"] = out
			reproduced = ok
			rep["reproduced"] = ok
		}
		writeJSON(rp, rep)
		if reproduced {
			fmt.Printf("VIOLATION property=%s replay=%s\n", id, rp)
		} else {
			fmt.Printf("VIOLATION property=%s replay=%s no-failing-input-found\n", id, rp)
		}
		fmt.Printf("  failed obligation: %s [%s] %s:%d: %s\n", v.Obl.Name, v.Status, relPath(v.Obl.Pos.Filename), v.Obl.Pos.Line, v.Obl.Text)
	}
	// known findings that no longer fail are simply not printed
	trusted := []string{
		"go/packages + go/types + go/ssa (x/tools v0.50.0) represent the compiled program; go1.26.8 toolchain",
		"govc VC generator (this engine) and the SMT solvers z3 5.1.0 / cvc5 1.0 / z3 4.8.12",
		"integers: mathematical Int with exact wrap-around per Go type (machine arithmetic is modelled, not idealised)",
	}
	for a := range externs {
		trusted = append(trusted, "assumed extern contract: "+a)
	}
	for a := range assumptions {
		trusted = append(trusted, a)
	}
	for _, t := range pc.ExtraTrust {
		trusted = append(trusted, t)
	}
	sort.Strings(trusted[3:])
	var inl []string
	for a := range inlined {
		inl = append(inl, shortKey(a))
	}
	sort.Strings(inl)
	level := "proof"
	ev := map[string]interface{}{
		"property_id": id,
		"tier":        *tier,
		"seed":        seed,
		"level":       level,
		"coverage": map[string]interface{}{
			"obligations":           total,
			"discharged":            discharged,
			"checker_cmd":           fmt.Sprintf("bin/govc check %s --tier %s", id, *tier),
			"trusted_base":          trusted,
			"samples":               samples,
			"functions_under_contract": funcs,
			"inlined_callees":       inl,
			"discharged_by_solver":  bySolver,
			"solver_time_ms":        solverMs,
			"per_obligation_timeout_ms": timeout,
			"claim":                 pc.Claim,
			"not_covered":           pc.NotCovered,
			"bounded":               pc.Bounded,
			"known_findings_hit":    keysOf(knownHit),
			"contract_constructs":   eng.scan,
			"contract_files":        relAll(eng.files),
			"engine_errors":         engineErrors,
			"not_attempted_after_failures": skipped,
		},
		"assumptions": trusted,
		"wall_s":      time.Since(start).Seconds(),
		"violations":  violations + bindViolations,
	}
	os.MkdirAll(filepath.Join(verifRoot(), "evidence"), 0o755)
	if out := os.Getenv("GOVC_EVIDENCE_OUT"); out != "" {
		writeJSON(out, ev) // self-test runs on scratch copies must not overwrite the evidence
	} else {
		writeJSON(filepath.Join(verifRoot(), "evidence", id+".json"), ev)
	}
	if skipped > 0 {
		fmt.Printf("  %d further obligations were not attempted after %d failed ones\n", skipped, maxFailuresPerRun)
	}
	fmt.Printf("property=%s tier=%s functions=%d obligations=%d discharged=%d violations=%d engine_errors=%d wall=%.1fs\n",
		id, *tier, len(funcs), total, discharged, violations+bindViolations, engineErrors, time.Since(start).Seconds())
	if violations+bindViolations > 0 {
		if !*keep {
			os.RemoveAll(work) // os.Exit skips the deferred removal
		}
		os.Exit(1)
	}
	if engineErrors > 0 || total == 0 || (pc.MinOblig > 0 && total < pc.MinOblig) {
		fmt.Printf("ERROR property=%s undecided: engine errors=%d obligations=%d (minimum %d)\n", id, engineErrors, total, pc.MinOblig)
		if !*keep {
			os.RemoveAll(work)
		}
		os.Exit(2)
	}
}

func keysOf(m map[string]bool) []string {
	out := []string{}
	for k := range m {
		out = append(out, k)
	}
	sort.Strings(out)
	return out
}

func relAll(fs []string) []string {
	var out []string
	for _, f := range fs {
		out = append(out, relPath(f))
	}
	sort.Strings(out)
	return out
}

func writeJSON(path string, v interface{}) {
	data, _ := json.MarshalIndent(v, "", " ")
	os.WriteFile(path, append(data, '\n'), 0o644)
}

// runReplay injects the property's replay harness into the package with -overlay and runs it
// against the real code. The harness prints "REPLAY: reproduced" when the property statement
// fails on the model's input.
func runReplay(pc *PropConfig, id, replayFile string) (string, bool) {
	repo := repoRoot()
	rpkg, rfile := pc.ReplayPkg, pc.ReplayFile
	// a property whose functions live in several packages may name another harness for some of them
	if len(pc.ReplayAlt) > 0 {
		if data, err := os.ReadFile(replayFile); err == nil {
			var rep struct {
				Function string `json:"function"`
			}
			if json.Unmarshal(data, &rep) == nil {
				for key, alt := range pc.ReplayAlt {
					if len(alt) == 2 && strings.Contains(rep.Function, key) {
						rpkg, rfile = alt[0], alt[1]
					}
				}
			}
		}
	}
	harness := filepath.Join(verifRoot(), "replay", rfile)
	target := filepath.Join(repo, rpkg, "zz_govc_replay_test.go")
	ov := map[string]interface{}{"Replace": map[string]string{target: harness}}
	ovFile := replayFile + ".overlay.json"
	writeJSON(ovFile, ov)
	defer os.Remove(ovFile)
	tags := "slicelabels"
	if pc.ReplayTags != "" {
		tags = pc.ReplayTags
	}
	cmd := exec.Command("go", "test", "-overlay", ovFile, "-tags", tags, "-vet=off", "-count=1", "-timeout", "120s", "-run", "TestGovcReplay", "./"+rpkg+"/")
	cmd.Dir = repo
	cmd.Env = append(os.Environ(), "GOVC_REPLAY_FILE="+replayFile, "GOFLAGS=-mod=mod", "GOPROXY=off", "GOSUMDB=off", "GOTOOLCHAIN=local")
	out, _ := cmd.CombinedOutput()
	s := string(out)
	reproduced := strings.Contains(s, "REPLAY: reproduced")
	// the harness's own lines first (the code under test may log a lot), then the rest
	var own, rest []string
	for _, l := range strings.Split(s, "\n") {
		if strings.HasPrefix(l, "REPLAY:") || strings.HasPrefix(l, "CONFORMANCE:") || strings.HasPrefix(l, "--- ") || strings.HasPrefix(l, "FAIL") || strings.HasPrefix(l, "ok ") || strings.HasPrefix(l, "panic:") {
			own = append(own, l)
		} else {
			rest = append(rest, l)
		}
	}
	s = strings.Join(append(own, rest...), "\n")
	if len(s) > 6000 {
		s = s[:6000]
	}
	return s, reproduced
}

// funcTimeout: a contract may ask for a larger per-obligation budget (`opt timeout=<ms>`) when its
// obligations are known to need it (byte-level layouts); it never lowers the tier's budget.
func funcTimeout(eng *Engine, key string, tier int) int {
	if ct := eng.contracts[key]; ct != nil {
		if v := ct.Opts["timeout"]; v != "" {
			if n, err := strconv.Atoi(v); err == nil && n > tier {
				return n
			}
		}
	}
	return tier
}
