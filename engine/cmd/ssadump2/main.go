// ssadump2 prints go/ssa of selected functions of packages loaded from /repo (dev aid).
package main

import (
	"fmt"
	"go/types"
	"os"
	"strings"

	"golang.org/x/tools/go/packages"
	"golang.org/x/tools/go/ssa"
	"golang.org/x/tools/go/ssa/ssautil"
)

func main() {
	pkgPath := os.Args[1]
	names := os.Args[2:]
	cfg := &packages.Config{
		Mode:       packages.NeedName | packages.NeedFiles | packages.NeedCompiledGoFiles | packages.NeedImports | packages.NeedTypes | packages.NeedTypesSizes | packages.NeedSyntax | packages.NeedTypesInfo | packages.NeedDeps,
		Dir:        "/repo",
		BuildFlags: []string{"-tags=slicelabels,verif"},
	}
	pkgs, err := packages.Load(cfg, pkgPath)
	if err != nil {
		panic(err)
	}
	prog, spkgs := ssautil.Packages(pkgs, ssa.GlobalDebug|ssa.InstantiateGenerics)
	_ = prog
	for _, sp := range spkgs {
		if sp == nil {
			continue
		}
		sp.Build()
		for _, n := range names {
			var fn *ssa.Function
			if i := strings.Index(n, "."); i >= 0 {
				tn, mn := n[:i], n[i+1:]
				if t := sp.Type(tn); t != nil {
					fn = prog.LookupMethod(t.Type(), sp.Pkg, mn)
					if fn == nil {
						fn = prog.LookupMethod(ptrTo(t), sp.Pkg, mn)
					}
				}
			} else {
				fn = sp.Func(n)
			}
			if fn == nil {
				fmt.Println("not found", n)
				continue
			}
			fn.WriteTo(os.Stdout)
			for _, af := range fn.AnonFuncs {
				af.WriteTo(os.Stdout)
			}
		}
	}
}

func ptrTo(t *ssa.Type) types.Type { return types.NewPointer(t.Type()) }
