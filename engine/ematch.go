package main

import (
	"fmt"
	"os"
	"strings"
)

// Goal-directed instantiation of array facts ("reads drive instantiation").
//
// The heap is a chain of versions  |E T!n| = (store |E T!m| base inner)  (per element type; the
// same for field arrays). A read  (select (select |E T!n| B) idx)  in the goal is a read of `inner`
// at idx (if B is that base) or of version m. One-binder hypotheses that describe an array
// element-wise — append, copy, clear, loop invariants, callee postconditions — are instantiated
// exactly where a matching array is read:
//     hypothesis reads  (select A (+ t1 .. q .. tn))   and the goal reads  (select A' g)
//     with A' possibly A   ==>   instance q := g - (t1 + .. + tn).
// The reads of every new instance are followed in turn (breadth first, bounded). This is sound
// for the same reason the rest of the instantiation prover is: only instances of hypotheses are
// added.

type heapDef struct {
	prevs []string // version symbols the definition refers to
	inner string   // stored inner array if the definition is (store prev base inner)
	body  string
}

type arrRead struct{ arr, idx string }

// allSelects lists (array term, index term) of every select sub-term.
func allSelects(s string) []arrRead {
	var out []arrRead
	for i := 0; i+8 < len(s); i++ {
		if s[i] == '(' && strings.HasPrefix(s[i:], "(select ") {
			j := sexpEnd(s, i)
			_, as := splitTop(s[i:j])
			if len(as) == 2 {
				out = append(out, arrRead{strings.TrimSpace(as[0]), strings.TrimSpace(as[1])})
			}
		}
	}
	return out
}

// versionOf returns the heap-version symbol of an array term (select |E ..| B), or "".
func versionOf(arr string) (ver, base string) {
	if !strings.HasPrefix(arr, "(select |") {
		return "", ""
	}
	_, as := splitTop(arr)
	if len(as) != 2 {
		return "", ""
	}
	v := strings.TrimSpace(as[0])
	if strings.HasPrefix(v, "|") && strings.HasSuffix(v, "|") && strings.Count(v, "|") == 2 {
		return v, strings.TrimSpace(as[1])
	}
	return "", ""
}

func isSymbol(s string) bool {
	return strings.HasPrefix(s, "|") && strings.HasSuffix(s, "|") && strings.Count(s, "|") == 2
}

// symbolsIn lists the |quoted symbols| of s.
func symbolsIn(s string) []string {
	var out []string
	for i := 0; i < len(s); i++ {
		if s[i] == '|' {
			j := i + 1
			for j < len(s) && s[j] != '|' {
				j++
			}
			if j < len(s) {
				out = append(out, s[i:j+1])
			}
			i = j
		}
	}
	return out
}

type ematchPat struct {
	q      *quantHyp
	arr    string   // array term read by the hypothesis (does not mention the binder)
	others []string // index = binder + sum(others); empty: index is the binder
}

// ematchInstances returns the instances (and the definitions they need) for the goal.
func ematchInstances(lines []string, hyps []*quantHyp, goalText string) []string {
	// heap version definitions; scalar definitions whose bodies read arrays
	defs := map[string]*heapDef{}
	scalarDefs := map[string]string{}
	for _, l := range lines {
		if !strings.HasPrefix(l, "(define-fun |") {
			continue
		}
		_, as := splitTop(l)
		if len(as) != 4 || strings.TrimSpace(as[1]) != "()" {
			continue
		}
		if !strings.HasPrefix(strings.TrimSpace(as[2]), "(Array ") {
			if strings.Contains(as[3], "(select ") || strings.Contains(as[3], "|") {
				scalarDefs[strings.TrimSpace(as[0])] = strings.TrimSpace(as[3])
			}
			continue
		}
		name := strings.TrimSpace(as[0])
		body := strings.TrimSpace(as[3])
		d := &heapDef{body: body}
		if op, sa := splitTop(body); op == "ite" && len(sa) == 3 && isSymbol(strings.TrimSpace(sa[1])) {
			// (ite c E (store E base inner)): a conditional update
			if op2, sb := splitTop(strings.TrimSpace(sa[2])); op2 == "store" && len(sb) == 3 && strings.TrimSpace(sb[0]) == strings.TrimSpace(sa[1]) {
				body = strings.TrimSpace(sa[2])
			}
		}
		if op, sa := splitTop(body); op == "store" && len(sa) == 3 && isSymbol(strings.TrimSpace(sa[0])) {
			d.prevs = []string{strings.TrimSpace(sa[0])}
			d.inner = strings.TrimSpace(sa[2])
		} else {
			for _, sym := range symbolsIn(body) {
				d.prevs = append(d.prevs, sym)
			}
		}
		defs[name] = d
	}
	// patterns
	var pats []ematchPat
	for _, q := range hyps {
		if len(q.names) != 1 || q.sorts[0] != SInt {
			continue
		}
		bn := q.names[0]
		seen := map[string]bool{}
		src := q.body
		if q.pattern != "" {
			// an explicit trigger names the array the fact describes; reads of the arrays it is
			// described by (the right-hand sides) do not trigger it
			src = q.pattern
		}
		for _, r := range allSelects(src) {
			if strings.Contains(r.arr, bn) || !strings.Contains(r.idx, bn) {
				continue
			}
			var others []string
			if r.idx != bn {
				op, as := splitTop(r.idx)
				if op != "+" {
					continue
				}
				cnt, okp := 0, true
				for _, a := range as {
					a = strings.TrimSpace(a)
					if a == bn {
						cnt++
					} else if strings.Contains(a, bn) {
						okp = false
					} else {
						others = append(others, a)
					}
				}
				if !okp || cnt != 1 {
					continue
				}
			}
			k := r.arr + "@" + strings.Join(others, " ")
			if seen[k] {
				continue
			}
			seen[k] = true
			pats = append(pats, ematchPat{q, r.arr, others})
		}
	}
	if len(pats) == 0 {
		return nil
	}
	// canonical text of an array term: named SSA values / spec abbreviations (0-ary define-funs)
	// are replaced by their definitions, so that the same object reached through a program variable
	// and through a specification path compares equal
	canonMemo := map[string]string{}
	var canon func(t string, depth int) string
	canon = func(t string, depth int) string {
		if depth == 0 {
			if c, ok := canonMemo[t]; ok {
				return c
			}
		}
		out := t
		if depth < 6 {
			var b strings.Builder
			i := 0
			for i < len(t) {
				if t[i] == '|' {
					j := i + 1
					for j < len(t) && t[j] != '|' {
						j++
					}
					sym := t[i : j+1]
					if body, ok := scalarDefs[sym]; ok && len(body) < 2000 {
						b.WriteString(canon(body, depth+1))
					} else {
						b.WriteString(sym)
					}
					i = j + 1
					continue
				}
				b.WriteByte(t[i])
				i++
			}
			out = b.String()
		}
		if depth == 0 {
			out = simplifyMkslice(out)
		}
		if depth == 0 && len(out) < 20000 {
			canonMemo[t] = out
		}
		return out
	}
	// index: array symbol / version -> patterns
	bySym := map[string][]int{}
	byVer := map[string][]int{}
	for i, p := range pats {
		if isSymbol(p.arr) {
			bySym[p.arr] = append(bySym[p.arr], i)
		} else if v, _ := versionOf(p.arr); v != "" {
			// a hypothesis about one object of a heap version: matched by reads of the same object
			// (textually the same base term) of that version
			byVer[canon(p.arr, 0)] = append(byVer[canon(p.arr, 0)], i)
		}
	}
	var out []string
	names := map[string]string{}
	nameOf := func(t string) string {
		if len(t) < 60 {
			return t
		}
		if n, ok := names[t]; ok {
			return n
		}
		n := fmt.Sprintf("|ix!%d|", len(names)+1)
		names[t] = n
		out = append(out, fmt.Sprintf("(define-fun %s () Int %s)", n, t))
		return n
	}
	done := map[string]bool{}
	seenRead := map[string]bool{}
	type item struct {
		r     arrRead
		depth int
	}
	var queue []item
	push := func(r arrRead, depth int) {
		if strings.Contains(r.idx, "|q ") || strings.Contains(r.arr, "|q ") || len(r.idx) > 3000 {
			return
		}
		k := r.arr + "@" + r.idx
		if seenRead[k] {
			return
		}
		seenRead[k] = true
		queue = append(queue, item{r, depth})
	}
	// reads of a text, looking through named scalar terms (define-fun'd abbreviations)
	visitedDef := map[string]bool{}
	var readsOf func(text string, depth int, skipArr string)
	readsOf = func(text string, depth int, skipArr string) {
		for _, r := range allSelects(text) {
			if r.arr == skipArr {
				// the instance's own read of the array it describes: this index (in another
				// textual form) is where the hypothesis was just instantiated
				continue
			}
			push(r, depth)
		}
		for _, sym := range symbolsIn(text) {
			if body, ok := scalarDefs[sym]; ok && !visitedDef[sym] {
				visitedDef[sym] = true
				readsOf(body, depth, skipArr)
			}
		}
	}
	readsOf(goalText, 0, "")
	total := 0
	const maxDepth, maxTotal = 8, 3000
	fireCount := map[int]int{}
	fire := func(pi int, idx string, depth int) {
		p := pats[pi]
		v := nameOf(idx)
		if len(p.others) == 1 {
			v = "(- " + v + " " + nameOf(p.others[0]) + ")"
		} else if len(p.others) > 1 {
			v = "(- " + v + " " + nameOf("(+ "+strings.Join(p.others, " ")+")") + ")"
		}
		inst := p.q.instantiate([]string{v})
		if done[inst] || len(inst) > 30000 {
			return
		}
		done[inst] = true
		total++
		fireCount[pi]++
		out = append(out, inst)
		if depth+1 <= maxDepth {
			readsOf(inst, depth+1, p.arr)
		}
	}
	for len(queue) > 0 && total < maxTotal {
		it := queue[0]
		queue = queue[1:]
		r := it.r
		if isSymbol(r.arr) {
			for _, pi := range bySym[r.arr] {
				fire(pi, r.idx, it.depth)
			}
			// a heap version read at an object (outer select): the same object of the versions it is
			// built from
			if d := defs[r.arr]; d != nil {
				for _, pv := range d.prevs {
					if isSymbol(pv) && (defs[pv] != nil || len(bySym[pv]) > 0) {
						push(arrRead{pv, r.idx}, it.depth)
					}
				}
			}
			// a name for one object's element array — (select HEAP base) — is read like that term
			if d := defs[r.arr]; d != nil {
				if op, sa := splitTop(d.body); op == "select" && len(sa) == 2 && isSymbol(strings.TrimSpace(sa[0])) {
					push(arrRead{d.body, r.idx}, it.depth)
				}
			}
			// a named inner array may itself be defined in terms of heap reads
			if d := defs[r.arr]; d != nil {
				for _, sub := range allSelects(d.body) {
					if v, _ := versionOf(sub.arr); v != "" || isSymbol(sub.arr) {
						push(arrRead{sub.arr, r.idx}, it.depth)
					}
				}
			}
			continue
		}
		ver, base := versionOf(r.arr)
		if ver == "" {
			// e.g. (select (store A i x) j) or (select (ite c A B) j): follow the arrays inside
			for _, sym := range symbolsIn(r.arr) {
				if len(bySym[sym]) > 0 {
					push(arrRead{sym, r.idx}, it.depth)
				}
			}
			for _, sub := range allSelects(r.arr) {
				if v, _ := versionOf(sub.arr); v != "" {
					push(arrRead{sub.arr, r.idx}, it.depth)
				}
			}
			continue
		}
		for _, pi := range byVer[canon(r.arr, 0)] {
			fire(pi, r.idx, it.depth)
		}
		if d := defs[ver]; d != nil {
			if d.inner != "" {
				if isSymbol(d.inner) {
					push(arrRead{d.inner, r.idx}, it.depth)
				} else {
					for _, sym := range symbolsIn(d.inner) {
						if len(bySym[sym]) > 0 {
							push(arrRead{sym, r.idx}, it.depth)
						}
					}
					for _, sub := range allSelects(d.inner) {
						if v, _ := versionOf(sub.arr); v != "" {
							push(arrRead{sub.arr, r.idx}, it.depth)
						}
						// values stored into the array are reads in their own right
						push(sub, it.depth)
					}
					// .. also when they are named SSA values defined by a read
					for _, sym := range symbolsIn(d.inner) {
						if body, ok := scalarDefs[sym]; ok && !visitedDef[sym] {
							visitedDef[sym] = true
							readsOf(body, it.depth, "")
						}
					}
				}
			}
			for _, pv := range d.prevs {
				if _, isHeap := defs[pv]; isHeap || strings.HasPrefix(pv, "|E ") || strings.HasPrefix(pv, "|F ") || strings.HasPrefix(pv, "|P ") || strings.HasPrefix(pv, "|G ") || strings.HasPrefix(pv, "|M ") {
					push(arrRead{"(select " + pv + " " + base + ")", r.idx}, it.depth)
				}
			}
		}
	}
	if os.Getenv("GOVC_EMATCH_DEBUG") != "" {
		cnt := map[string]int{}
		for k, n := range fireCount {
			key := pats[k].arr + " @ " + strings.Join(pats[k].others, " ")
			if len(key) > 160 {
				key = key[:160]
			}
			cnt[key] += n
		}
		for k, n := range cnt {
			fmt.Fprintf(os.Stderr, "ematch %5d  %s\n", n, k)
		}
		fmt.Fprintf(os.Stderr, "ematch total %d reads %d\n", total, len(seenRead))
	}
	return out
}

// simplifyMkslice rewrites (sbase (mkslice a b c d)) to a (and soff/slen/scap to b/c/d): a
// sub-slice s[1:] denotes the same backing array as s.
func simplifyMkslice(t string) string {
	for iter := 0; iter < 20; iter++ {
		changed := false
		for fi, fn := range []string{"(sbase (mkslice ", "(soff (mkslice ", "(slen (mkslice ", "(scap (mkslice "} {
			k := strings.Index(t, fn)
			if k < 0 {
				continue
			}
			// the inner (mkslice ...) term starts at k+len("(sbase ")
			start := k + len("(sbase ")
			depth, end := 0, -1
			for i := start; i < len(t); i++ {
				if t[i] == '|' {
					j := strings.IndexByte(t[i+1:], '|')
					if j < 0 {
						break
					}
					i += j + 1
					continue
				}
				if t[i] == '(' {
					depth++
				} else if t[i] == ')' {
					depth--
					if depth == 0 {
						end = i
						break
					}
				}
			}
			if end < 0 || end+1 >= len(t) || t[end+1] != ')' {
				continue
			}
			_, as := splitTop(t[start : end+1])
			if len(as) != 4 {
				continue
			}
			t = t[:k] + strings.TrimSpace(as[fi]) + t[end+2:]
			changed = true
		}
		if !changed {
			break
		}
	}
	return t
}
