package main

import (
	"fmt"
	"go/token"
	"go/types"
	"os"
	"path/filepath"
	"sort"
	"strings"

	"golang.org/x/tools/go/packages"
	"golang.org/x/tools/go/ssa"
	"golang.org/x/tools/go/ssa/ssautil"
)

type Engine struct {
	privCache  map[*ssa.Function]map[ssa.Value]bool // escape.go
	escCache   map[*ssa.Function]*escState
	immGlobals map[*ssa.Global]bool
	allFuncs   map[*ssa.Function]bool
	fset               *token.FileSet
	prog               *ssa.Program
	pkgs               map[string]*ssa.Package
	tpkgs              map[string]*packages.Package
	contracts          map[string]*Contract
	contractPkg        map[string]string
	specFuncs          map[string]*SpecFunc
	ghosts             map[string]*GhostField
	lemmas             []*Lemma
	axioms             []*Clause
	axiomPkg           map[*Clause]string
	heapSorts          map[string]string
	typeIDs            map[string]int
	typeByID           []types.Type
	inlineStack        []*ssa.Function
	inlineOverContract map[string]bool
	lines              map[string][]string
	scan               map[string]int
	files              []string
	noInline           map[string]bool
	specDeclaring      map[string]bool
	structDecls        map[string]string
	constLen           map[string]int64 // named slice terms with a constant length
}

const repoModule = "github.com/thanos-io/thanos"

func loadEngine(repo string, pkgPatterns []string, extraContractFiles []string) (*Engine, error) {
	cfg := &packages.Config{
		Mode: packages.NeedName | packages.NeedFiles | packages.NeedCompiledGoFiles | packages.NeedImports |
			packages.NeedTypes | packages.NeedTypesSizes | packages.NeedSyntax | packages.NeedTypesInfo,
		Dir:        repo,
		BuildFlags: []string{"-tags=slicelabels,verif"},
	}
	pkgs, err := packages.Load(cfg, pkgPatterns...)
	if err != nil {
		return nil, err
	}
	for _, p := range pkgs {
		if len(p.Errors) > 0 {
			return nil, fmt.Errorf("package %s: %v", p.PkgPath, p.Errors[0])
		}
	}
	prog, spkgs := ssautil.Packages(pkgs, ssa.GlobalDebug)
	e := &Engine{prog: prog, pkgs: map[string]*ssa.Package{}, tpkgs: map[string]*packages.Package{}, contracts: map[string]*Contract{},
		contractPkg: map[string]string{}, axiomPkg: map[*Clause]string{}, specFuncs: map[string]*SpecFunc{}, ghosts: map[string]*GhostField{}, heapSorts: map[string]string{},
		typeIDs: map[string]int{}, inlineOverContract: map[string]bool{}, privCache: map[*ssa.Function]map[ssa.Value]bool{}, lines: map[string][]string{}, scan: map[string]int{},
		noInline: map[string]bool{}, specDeclaring: map[string]bool{}, structDecls: map[string]string{}, constLen: map[string]int64{}}
	for i, sp := range spkgs {
		if sp == nil {
			continue
		}
		sp.Build()
		e.pkgs[sp.Pkg.Path()] = sp
		e.tpkgs[sp.Pkg.Path()] = pkgs[i]
		e.fset = pkgs[i].Fset
	}
	// contract files: zz_contracts_verif.go of every loaded package + extra files
	for path, tp := range e.tpkgs {
		for _, gf := range tp.CompiledGoFiles {
			if strings.HasSuffix(gf, "_verif.go") {
				if err := e.addContractFile(gf, path); err != nil {
					return nil, err
				}
			}
		}
	}
	for _, cf := range extraContractFiles {
		if err := e.addContractFile(cf, ""); err != nil {
			return nil, err
		}
	}
	return e, nil
}

func (e *Engine) addContractFile(file, pkgPath string) error {
	cf, err := parseContractFile(file)
	if err != nil {
		return err
	}
	e.files = append(e.files, file)
	for k, n := range cf.Scan {
		e.scan[k] += n
	}
	for _, name := range cf.Order {
		ct := cf.Contracts[name]
		key := name
		if !ct.Extern {
			if pkgPath == "" {
				return fmt.Errorf("%s: non-extern contract %s outside a package", file, name)
			}
			key = qualify(pkgPath, name)
			if e.findFunc(key) == nil {
				return fmt.Errorf("%s:%d: contract for %s does not bind to a function (looked for %s)", file, ct.Line, name, key)
			}
		}
		if prev, dup := e.contracts[key]; dup {
			if prev.Extern && !ct.Extern {
				// an assumed (extern) contract of a function of this repository, given for the
				// checks that do not load its package, is replaced by the package's own contract
			} else if !prev.Extern && ct.Extern {
				continue // .. whichever of the two files is read first
			} else {
				return fmt.Errorf("%s:%d: duplicate contract for %s", file, ct.Line, key)
			}
		}
		e.contracts[key] = ct
		e.contractPkg[key] = pkgPath
	}
	for _, sf := range cf.SpecFuncs {
		if _, dup := e.specFuncs[sf.Name]; dup {
			return fmt.Errorf("%s: duplicate spec func %s", file, sf.Name)
		}
		e.specFuncs[sf.Name] = sf
		if sf.Macro {
			macroTable[sf.Name] = sf
		}
	}
	for _, g := range cf.Ghosts {
		e.ghosts[g.Name] = g
	}
	for _, l := range cf.Lemmas {
		l.Pkg = pkgPath
		e.lemmas = append(e.lemmas, l)
	}
	for _, ax := range cf.Axioms {
		// an axiom of a package's contract file speaks about that package's names: it is assumed
		// for the functions of that package only (axioms of the dependency files: everywhere)
		e.axioms = append(e.axioms, ax)
		e.axiomPkg[ax] = pkgPath
	}
	return nil
}

func qualify(pkgPath, name string) string {
	switch {
	case strings.HasPrefix(name, "(*"):
		return "(*" + pkgPath + "." + name[2:]
	case strings.HasPrefix(name, "("):
		return "(" + pkgPath + "." + name[1:]
	}
	return pkgPath + "." + name
}

// findFunc finds a function (or method, or anonymous function name$k) by its ssa name.
func (e *Engine) findFunc(key string) *ssa.Function {
	for _, sp := range e.pkgs {
		for _, m := range sp.Members {
			switch x := m.(type) {
			case *ssa.Function:
				if fn := matchFn(x, key); fn != nil {
					return fn
				}
			case *ssa.Type:
				for _, t := range []types.Type{x.Type(), types.NewPointer(x.Type())} {
					ms := e.prog.MethodSets.MethodSet(t)
					for i := 0; i < ms.Len(); i++ {
						fn := e.prog.MethodValue(ms.At(i))
						if fn == nil {
							continue
						}
						if r := matchFn(fn, key); r != nil {
							return r
						}
					}
				}
				// generic types: methods are reachable through the named type's methods
				if named, ok := x.Type().(*types.Named); ok && named.TypeParams().Len() > 0 {
					for i := 0; i < named.NumMethods(); i++ {
						fn := e.prog.FuncValue(named.Method(i))
						if fn == nil {
							continue
						}
						if r := matchFn(fn, key); r != nil {
							return r
						}
					}
				}
			}
		}
	}
	return nil
}

func matchFn(fn *ssa.Function, key string) *ssa.Function {
	if fn.Synthetic != "" && !strings.Contains(fn.Synthetic, "instance") {
		return nil
	}
	if funcKey(fn) == key {
		return fn
	}
	if strings.HasPrefix(key, funcKey(fn)+"$") {
		for _, af := range allAnon(fn) {
			if funcKey(af) == key {
				return af
			}
		}
	}
	return nil
}

func allAnon(fn *ssa.Function) []*ssa.Function {
	var out []*ssa.Function
	for _, af := range fn.AnonFuncs {
		out = append(out, af)
		out = append(out, allAnon(af)...)
	}
	return out
}

func (e *Engine) contract(key string) *Contract { return e.contracts[key] }

func (e *Engine) typeID(t types.Type) Term {
	k := typeKey(t)
	id, ok := e.typeIDs[k]
	if !ok {
		id = len(e.typeIDs) + 1
		e.typeIDs[k] = id
		e.typeByID = append(e.typeByID, t)
	}
	return intLit(int64(id))
}

func (e *Engine) fileLines(name string) []string {
	if l, ok := e.lines[name]; ok {
		return l
	}
	data, _ := os.ReadFile(name)
	l := strings.Split(string(data), "\n")
	e.lines[name] = l
	return l
}

// lookupType resolves "T", "*T", "pkg.T", "*pkg.T" relative to a package.
func (e *Engine) lookupType(pkg *types.Package, name string) types.Type {
	ptr := false
	if strings.HasPrefix(name, "*") {
		ptr = true
		name = name[1:]
	}
	var obj types.Object
	if i := strings.LastIndex(name, "."); i >= 0 {
		pn, tn := name[:i], name[i+1:]
		find := func(p *types.Package) {
			if obj == nil && p != nil && (p.Name() == pn || p.Path() == pn) {
				obj = p.Scope().Lookup(tn)
			}
		}
		if pkg != nil {
			find(pkg)
			for _, imp := range pkg.Imports() {
				find(imp)
			}
		}
		for _, sp := range e.pkgs {
			find(sp.Pkg)
			for _, imp := range sp.Pkg.Imports() {
				find(imp)
			}
		}
	} else {
		if pkg != nil {
			obj = pkg.Scope().Lookup(name)
		}
		if obj == nil {
			obj = types.Universe.Lookup(name)
		}
	}
	tn, ok := obj.(*types.TypeName)
	if !ok {
		return nil
	}
	if ptr {
		return types.NewPointer(tn.Type())
	}
	return tn.Type()
}

// assumedPure lists external helpers assumed to leave tracked state unchanged.
var pureAllow = []string{
	"fmt.", "errors.", "strconv.", "strings.", "(*strings.Builder)", "github.com/pkg/errors.", "github.com/go-kit/log", "(github.com/go-kit/log",
	"github.com/go-kit/log/level.", "time.", "(time.Time)", "(time.Duration)", "math.", "unicode", "bytes.", "sort.Search",
	"(github.com/prometheus/client_golang/prometheus", "github.com/prometheus/client_golang/prometheus", "(*github.com/prometheus/client_golang/prometheus",
	"github.com/thanos-io/thanos/pkg/tracing.", "(github.com/thanos-io/thanos/pkg/tracing.", "(*net/http.Request).Context", "(net/http.Header).Get","(github.com/opentracing/opentracing-go", "github.com/opentracing/opentracing-go",
	"(error).Error", "(context.Context)", "context.", "net/http.Error", "net/http.StatusText", "google.golang.org/grpc/status.", "google.golang.org/grpc/codes.",
	"(*google.golang.org/grpc/status.Status)", "github.com/weaveworks/common/httpgrpc.Errorf", "(github.com/oklog/ulid", "github.com/oklog/ulid",
	"(*go.uber.org/atomic", "path.", "path/filepath.", "(github.com/prometheus/prometheus/model/labels.Labels)", "(*github.com/prometheus/prometheus/model/labels.Matcher)",
	"github.com/prometheus/prometheus/model/labels.", "(github.com/prometheus/prometheus/model/labels", "hash/", "github.com/cespare/xxhash", "(*github.com/cespare/xxhash",
	"(log/slog", "log/slog", "unicode/utf8.", "encoding/binary.", "(encoding/binary",
	"github.com/thanos-io/thanos/pkg/errors.", "github.com/thanos-io/thanos/pkg/runutil.", "(*sync.Mutex)", "(*sync.RWMutex)", "(*sync.WaitGroup)", "(*sync.Once)",
	"(*sync/atomic", "sync/atomic.", "text/template.", "(*text/template", "(*github.com/prometheus/prometheus/model/labels.Builder)", "(*github.com/efficientgo/core/errors", "github.com/efficientgo/core/errors", "func value",
}

func (e *Engine) assumedPure(key string) bool {
	for _, p := range pureAllow {
		if strings.HasPrefix(key, p) {
			return true
		}
	}
	return false
}

func (e *Engine) mayInline(fn *ssa.Function) bool {
	if e.noInline[funcKey(fn)] {
		return false
	}
	if fn.Pkg == nil {
		return false
	}
	if !strings.HasPrefix(fn.Pkg.Pkg.Path(), repoModule) {
		return false
	}
	n := 0
	for _, b := range fn.Blocks {
		n += len(b.Instrs)
	}
	return n < 400
}

func (e *Engine) allowPanic(fn *ssa.Function, ct *Contract) bool {
	return ct != nil && ct.Opts["maypanic"] == "true"
}

func (e *Engine) nilChecks(fn *ssa.Function, ct *Contract) bool {
	key := funcKey(fn)
	if c := e.contracts[key]; c != nil {
		return c.Opts["nilcheck"] == "true"
	}
	return false
}

// declareSpecFunc emits the declaration / definition of a spec function (once).
func (e *Engine) declareSpecFunc(c *Ctx, env *specEnv, sf *SpecFunc) {
	key := "specfunc " + sf.Name
	if c.declSeen[key] {
		return
	}
	c.declSeen[key] = true
	name := quote("spec " + sf.Name)
	var ps, ss []string
	sub := &specEnv{f: env.f, c: c, heap: env.heap, old: env.old, vars: map[string]SVal{}, pkg: env.pkg}
	for _, p := range sf.Params {
		pn := quote("sp " + sf.Name + " " + p.Name)
		srt, got := c.resolveSort(env.pkg, p.Sort)
		ps = append(ps, fmt.Sprintf("(%s %s)", pn, srt))
		ss = append(ss, srt)
		sub.vars[p.Name] = SVal{T: Term{pn, srt}, GoT: got}
	}
	ret, _ := c.resolveSort(env.pkg, sf.Ret)
	if sf.Body != nil && !exprMentionsCall(sf.Body, sf.Name) {
		// non-recursive definition: an SMT-level definition (define-fun), no quantified axiom
		body := sub.eval(sf.Body)
		c.decls = append(c.decls, fmt.Sprintf("(define-fun %s (%s) %s %s)", name, strings.Join(ps, " "), ret, body.T.S))
	} else {
		if len(sf.Params) == 0 {
			c.decls = append(c.decls, fmt.Sprintf("(declare-const %s %s)", name, ret))
		} else {
			c.decls = append(c.decls, fmt.Sprintf("(declare-fun %s (%s) %s)", name, strings.Join(ss, " "), ret))
		}
		if sf.Body != nil {
			// definitional axiom (recursive definitions)
			body := sub.eval(sf.Body)
			app := name
			if len(ps) > 0 {
				var as []string
				for _, p := range sf.Params {
					as = append(as, quote("sp "+sf.Name+" "+p.Name))
				}
				app = "(" + name + " " + strings.Join(as, " ") + ")"
				c.decls = append(c.decls, fmt.Sprintf("(assert (forall (%s) (! (= %s %s) :pattern (%s))))", strings.Join(ps, " "), app, body.T.S, app))
			} else {
				c.decls = append(c.decls, fmt.Sprintf("(assert (= %s %s))", app, body.T.S))
			}
		}
	}
	for _, ax := range sf.Axioms {
		t := sub.eval(ax.E)
		c.decls = append(c.decls, "(assert "+t.T.S+")")
		c.assumed["axiom of spec func "+sf.Name+": "+ax.Text] = true
	}
}

// ---------------------------------------------------------------------------
// Verifying one function

type FuncResult struct {
	Key      string
	Fn       *ssa.Function
	Ctx      *Ctx
	Err      error // outside subset / spec error
	Contract *Contract
}

func (e *Engine) newCtx(fn *ssa.Function) *Ctx {
	return &Ctx{eng: e, declSeen: map[string]bool{}, counter: map[string]int{}, strLits: map[string]Term{}, assumed: map[string]bool{},
		externs: map[string]bool{}, inlined: map[string]bool{}, writes: map[string]bool{}, nonFresh: map[string]bool{}, freshRefs: map[string]bool{}, writeBases: map[string]map[string]Term{}, defined: map[string]bool{}, volatile: map[string]bool{}, fn: fn, oblCount: map[string]int{}}
}

func (e *Engine) verifyFunction(key string) (res *FuncResult) {
	fn := e.findFunc(key)
	ct := e.contracts[key]
	res = &FuncResult{Key: key, Fn: fn, Contract: ct}
	if fn == nil {
		res.Err = fmt.Errorf("function %s not found", key)
		return
	}
	if ct == nil {
		ct = &Contract{Func: key, Loops: map[int]*LoopSpec{}, Opts: map[string]string{}}
	}
	c := e.newCtx(fn)
	res.Ctx = c
	defer func() {
		if r := recover(); r != nil {
			switch x := r.(type) {
			case unsupported:
				res.Err = fmt.Errorf("outside subset: %s", x.msg)
			case specErr:
				res.Err = fmt.Errorf("spec error: %s", x.msg)
			default:
				panic(r)
			}
		}
	}()
	e.inlineStack = nil
	e.constLen = map[string]int64{}
	f := newFrame(c, fn)
	c.rootFrame = f
	f.top = true
	f.contract = ct
	f.heap = &heapState{epoch: 0, arrays: map[string]Term{}}
	f.entry = f.heap.clone()
	f.entryGuard = tTrue
	short := shortFn(fn)
	// parameters
	for _, p := range fn.Params {
		v := f.havocVal(p.Type(), "p."+p.Name(), f.heap)
		f.vals[p] = v
		f.params[p.Name()] = f.sval(v, p.Type())
	}
	if len(ct.Params) > 0 {
		for i, n := range ct.Params {
			if i < len(fn.Params) {
				f.params[n] = f.sval(f.vals[fn.Params[i]], fn.Params[i].Type())
			}
		}
	}
	for i, fv := range fn.FreeVars {
		v := f.havocVal(fv.Type(), "fv."+fv.Name(), f.heap)
		f.freeVars = append(f.freeVars, v)
		_ = i
		// a captured variable: the name denotes the variable (current value / struct address)
		f.vals[fv] = v
		f.debugAddr[fv.Name()] = fv
	}
	c.assume(ge(c.nalloc(f.heap), tZero))
	for _, g := range e.ghosts {
		c.heapGet(f.heap, "G "+g.Name, arraySort(SInt, specSort(g.Sort))) // register ghost state at entry
	}
	env := f.baseEnv(f.heap)
	if ct.Decreases != nil {
		f.fnVariant0 = c.name("fnvariant", env.eval(ct.Decreases.E).T)
	}
	var deferred []Let
	for _, l := range ct.Lets {
		if exprMentionsCall(l.E, "local") {
			// values of locals exist at the return sites only
			deferred = append(deferred, l)
			continue
		}
		v, ok := tryEval(env, l.E)
		if !ok {
			deferred = append(deferred, l)
			continue
		}
		v.T = c.name("let."+l.Name, v.T)
		f.lets[l.Name] = v
		env.vars[l.Name] = v
	}
	for _, ax := range e.axioms {
		if p := e.axiomPkg[ax]; p != "" && p != fnPkgPath(f.fn) {
			continue
		}
		c.assume(f.evalClause(env, ax))
		c.assumed["axiom: "+ax.Text] = true
	}
	for _, rq := range ct.Requires {
		f.assumeClause(env, rq, tTrue)
		f.noteParamTypes(rq.E, env)
	}
	// touch the heap keys mentioned by postconditions (so that old() refers to entry constants)
	func() {
		defer func() { recover() }()
		dc := c.fork()
		df := f.forkWith(dc)
		denv := df.baseEnv(df.heap)
		for _, en := range ct.Ensures {
			denv.vars["r"] = SVal{}
			_ = en
		}
	}()
	// vacuity: the preconditions are satisfiable
	o := c.oblige("requires-sat", short+"#requires-sat", tTrue, tTrue, f.pos(fn.Pos()), "preconditions and type invariants are satisfiable")
	o.WantSat = true
	f.runRegion(rpo(fn), nil, nil, nil)
	// every `at call X#k` clause must have found its call site
	for _, ac := range ct.AtCalls {
		if f.callOrd["atn "+ac.Callee] < ac.Ordinal {
			c.oblige("assert", fmt.Sprintf("%s#at:%s#%d.site-exists", short, ac.Callee, ac.Ordinal), tTrue, tFalse, f.pos(fn.Pos()),
				fmt.Sprintf("the function contains call #%d to %s (the contract attaches an obligation to it)", ac.Ordinal, ac.Callee))
		}
	}
	// postconditions per return site
	var retConds []Term
	for i, r := range f.rets {
		retConds = append(retConds, r.cond)
		penv := f.baseEnv(r.heap)
		penv.at = r.blk
		bindResults(penv, f, ct, fn.Signature, r.vals)
		for _, l := range deferred {
			penv.vars[l.Name] = penv.eval(l.E)
		}
		for j, en := range ct.Ensures {
			f.obligeClause("ensures", fmt.Sprintf("%s#ensures%d@ret%d", short, j+1, i+1), penv, en, r.cond, f.pos(r.pos), true)
		}
		if ct.HasMod {
			if ct.Opts["frame"] == "assumed" {
				// `opt frame=assumed`: the modifies clause is used by callers but not checked here (the
				// body calls logging / metrics / streaming code without contracts); listed as an assumption
				c.assumed["frame of "+short+" (its modifies clause) is assumed, not checked: the body calls code without contracts"] = true
			} else {
				f.frameCheck(ct, r, i+1)
			}
		}
	}
	// vacuity: some exit is reachable
	all := append(append([]Term{}, retConds...), f.panics...)
	o2 := c.oblige("vacuity", short+"#exit-reachable", tTrue, or(all...), f.pos(fn.Pos()), "some return site is reachable under the assumptions")
	o2.WantSat = true
	return
}

// modelQueries lists the terms whose model values describe the function's inputs.
func (f *frame) modelQueries() []modelQuery {
	var qs []modelQuery
	var names []string
	for n := range f.params {
		names = append(names, n)
	}
	sort.Strings(names)
	for _, n := range names {
		v := f.params[n]
		if v.Tup != nil {
			continue
		}
		switch v.T.Sort {
		case SInt, SBool, SReal:
			qs = append(qs, modelQuery{n, v.T})
		case SSlice:
			qs = append(qs, modelQuery{"len(" + n + ")", sLen(v.T)})
			if st, ok := types.Unalias(v.GoT).Underlying().(*types.Slice); ok {
				es := f.c.sortOf(st.Elem())
				if es == SInt || es == SBool {
					arr := f.c.heapGet(f.entry, elemKey(st.Elem()), f.c.elemSort(st.Elem()))
					for i := 0; i < 6; i++ {
						qs = append(qs, modelQuery{fmt.Sprintf("%s[%d]", n, i), sel(sel(arr, sBase(v.T)), add(sOff(v.T), intLit(int64(i))))})
					}
				}
			}
		}
		if pt, st, ok := isPtrToStruct(v.GoT); ok {
			for i := 0; i < st.NumFields(); i++ {
				fs := f.c.sortOf(st.Field(i).Type())
				if fs == SInt || fs == SBool {
					a := (&Addr{Kind: aStruct, Base: v.T, Typ: pt}).with(pstep{field: i})
					qs = append(qs, modelQuery{n + "." + st.Field(i).Name(), f.load(f.entry, a)})
				}
			}
		}
	}
	for n, v := range f.lets {
		if v.T.Sort == SInt || v.T.Sort == SBool {
			qs = append(qs, modelQuery{"let " + n, v.T})
		}
	}
	return qs
}

// frameAllowed evaluates the modifies clause in the entry state: per heap array the objects that may
// change, the arrays that may change as a whole, and whether everything may (`modifies *`).
func (f *frame) frameAllowed(ct *Contract) (allowed map[string][]Term, whole map[string]bool, all bool) {
	env := f.baseEnv(f.entry)
	allowed = map[string][]Term{}
	whole = map[string]bool{}
	for _, m := range ct.Modifies {
		if m == "*" {
			return nil, nil, true
		}
		saved := f.heap
		f.heap = f.entry.clone()
		for _, mk := range f.modKeys(m, env) {
			if mk.whole {
				whole[mk.key] = true
			} else {
				allowed[mk.key] = append(allowed[mk.key], mk.at)
			}
		}
		f.heap = saved
	}
	return allowed, whole, false
}

// frameCheck asserts that at a return site everything outside the modifies clause is unchanged
// for objects that existed at function entry.
func (f *frame) frameCheck(ct *Contract, r retRec, ord int) {
	c := f.c
	allowed, whole, all := f.frameAllowed(ct)
	if all {
		return
	}
	var keys []string
	for k := range c.writes {
		keys = append(keys, k)
	}
	if r.heap.epoch != f.entry.epoch {
		for k := range c.eng.heapSorts {
			if !c.writes[k] {
				keys = append(keys, k)
			}
		}
	}
	sort.Strings(keys)
	n0 := c.nalloc(f.entry)
	short := shortFn(f.fn)
	for _, k := range keys {
		if k == allocKey || whole[k] || strings.HasPrefix(k, "G iter ") {
			continue // (the ghost bookkeeping of a map iteration is local to the function)
		}
		srt := c.eng.heapSorts[k]
		if !strings.HasPrefix(srt, "(Array ") {
			continue
		}
		if strings.HasPrefix(k, "G ") && ct.Pure {
			// ghost state is covered like any other
		}
		fin := c.heapGet(r.heap, k, srt)
		ini := c.heapGet(f.entry, k, srt)
		if fin.S == ini.S {
			continue
		}
		c.counter["q"]++
		q := Term{quote(fmt.Sprintf("q ref %d", c.counter["q"])), SInt}
		conds := []Term{ge(q, mk(SInt, "-", n0))}
		for _, a := range allowed[k] {
			conds = append(conds, not(eq(q, a)))
		}
		goal := Term{fmt.Sprintf("(forall ((%s Int)) %s)", q.S, implies(and(conds...), eq(sel(fin, q), sel(ini, q))).S), SBool}
		c.oblige("frame", fmt.Sprintf("%s#frame:%s@ret%d", short, frameKeyName(k), ord), r.cond, goal, f.pos(r.pos), "only the modifies clause changes "+k)
	}
}

func frameKeyName(k string) string {
	return shortKey(k)
}

func relPath(p string) string {
	if r, err := filepath.Rel("/repo", p); err == nil && !strings.HasPrefix(r, "..") {
		return r
	}
	return p
}

// fnPkgPath is the import path of the package a function (or an instance of a generic function, or
// a closure) is declared in.
func fnPkgPath(fn *ssa.Function) string {
	for fn != nil {
		if fn.Pkg != nil && fn.Pkg.Pkg != nil {
			return fn.Pkg.Pkg.Path()
		}
		if o := fn.Origin(); o != nil && o != fn {
			fn = o
			continue
		}
		fn = fn.Parent()
	}
	return ""
}
