package main

import (
	"fmt"
	"go/types"
	"os"

	"golang.org/x/tools/go/ssa"
)

// Frame rule for calls whose effect on the heap is unknown (no contract, `modifies *`, an inlined
// callee that itself makes such calls). An object allocated by the function under execution —
// new / composite literal / make / an address-taken local — that the function never hands to
// other code cannot be reached by a callee: a callee sees only what is reachable from its
// arguments and from package variables, and what it allocates itself. Such a PRIVATE object keeps
// its contents across the call although the rest of the heap is havoced.
//
// privateSites decides, per allocation instruction of fn, whether any of its dynamic instances can
// become reachable by other code before fn returns (flow-insensitive, field-sensitive for the
// first level of struct fields, conservative for everything it does not know): a site escapes when
// a value that may point to (or into) it is passed as an argument or receiver of a call, bound by
// a closure, sent on a channel, converted to unsafe.Pointer / uintptr, given to panic, or stored
// through an address that may lie outside the private objects (or inside an escaped one);
// everything stored in an escaped object escapes with it. Returning a value does not let a callee
// see it.

var escPublic ssa.Value = &ssa.Const{} // marker: "may point to memory other code can reach"

type escState struct {
	refs     map[ssa.Value]map[ssa.Value]bool         // value -> sites (or escPublic) it may point to
	field    map[ssa.Value]int                        // address values: first-level field (-1: any)
	contents map[ssa.Value]map[int]map[ssa.Value]bool // site -> field -> what may be stored there
	escaped  map[ssa.Value]bool
	coarse   map[ssa.Value]bool // sites whose interior addresses are stored somewhere: no field sensitivity
	changed  bool
}

func (e *escState) addRef(v, s ssa.Value) {
	m := e.refs[v]
	if m == nil {
		m = map[ssa.Value]bool{}
		e.refs[v] = m
	}
	if !m[s] {
		m[s] = true
		e.changed = true
	}
}

func (e *escState) flow(dst ssa.Value, src ssa.Value) {
	for s := range e.refsOf(src) {
		e.addRef(dst, s)
	}
}

// refsOf: what a value may point to. Values that are not instructions of the function (parameters,
// free variables, package variables, functions) point to public memory; constants to nothing.
func (e *escState) refsOf(v ssa.Value) map[ssa.Value]bool {
	switch v.(type) {
	case *ssa.Const:
		return nil
	case *ssa.Parameter, *ssa.FreeVar, *ssa.Global, *ssa.Function, *ssa.Builtin:
		return map[ssa.Value]bool{escPublic: true}
	}
	return e.refs[v]
}

func (e *escState) escape(v ssa.Value) {
	for s := range e.refsOf(v) {
		e.escapeSite(s)
	}
}

func (e *escState) escapeSite(s ssa.Value) {
	if s == escPublic || e.escaped[s] {
		return
	}
	e.escaped[s] = true
	e.changed = true
}

func (e *escState) addContent(site ssa.Value, fld int, val ssa.Value) {
	for s := range e.refsOf(val) {
		e.addContentSite(site, fld, s)
	}
}

func (e *escState) addContentSite(site ssa.Value, fld int, s ssa.Value) {
	m := e.contents[site]
	if m == nil {
		m = map[int]map[ssa.Value]bool{}
		e.contents[site] = m
	}
	if m[fld] == nil {
		m[fld] = map[ssa.Value]bool{}
	}
	if !m[fld][s] {
		m[fld][s] = true
		e.changed = true
	}
}

// contentsOf: everything that may be read from field fld (-1: any field) of the objects v may
// point to.
func (e *escState) contentsOf(v ssa.Value, fld int) map[ssa.Value]bool {
	out := map[ssa.Value]bool{}
	for s := range e.refsOf(v) {
		if s == escPublic || e.escaped[s] {
			out[escPublic] = true
			if s == escPublic {
				continue
			}
		}
		for f, set := range e.contents[s] {
			if fld == -1 || f == -1 || f == fld || e.coarse[s] {
				for x := range set {
					out[x] = true
				}
			}
		}
	}
	return out
}

// storeInto: val is written to field fld of the objects addr may point to.
func (e *escState) storeInto(addr ssa.Value, fld int, val ssa.Value) {
	if _, interior := e.field[val]; interior {
		// an interior address is written to memory: whoever loads it again has lost the field
		for s := range e.refsOf(val) {
			if s != escPublic && !e.coarse[s] {
				e.coarse[s] = true
				e.changed = true
			}
		}
	}
	for s := range e.refsOf(addr) {
		if s == escPublic || e.escaped[s] {
			e.escape(val)
			if s == escPublic {
				continue
			}
		}
		if e.coarse[s] {
			e.addContent(s, -1, val)
		} else {
			e.addContent(s, fld, val)
		}
	}
}

func (e *escState) setField(v ssa.Value, f int) {
	if old, ok := e.field[v]; ok {
		if old == f || old == -1 {
			return
		}
		f = -1 // two different answers: any field
	}
	e.field[v] = f
	e.changed = true
}

func (e *escState) fieldOf(v ssa.Value) int {
	if f, ok := e.field[v]; ok {
		return f
	}
	return -1
}

func isUnsafeOrUintptr(t types.Type) bool {
	if b, ok := types.Unalias(t).Underlying().(*types.Basic); ok {
		return b.Kind() == types.UnsafePointer || b.Kind() == types.Uintptr
	}
	return false
}

func (eng *Engine) privateSites(fn *ssa.Function) map[ssa.Value]bool {
	if r, ok := eng.privCache[fn]; ok {
		return r
	}
	if eng.escCache == nil {
		eng.escCache = map[*ssa.Function]*escState{}
	}
	e := &escState{refs: map[ssa.Value]map[ssa.Value]bool{}, field: map[ssa.Value]int{}, contents: map[ssa.Value]map[int]map[ssa.Value]bool{}, escaped: map[ssa.Value]bool{}, coarse: map[ssa.Value]bool{}}
	var sites []ssa.Value
	for _, b := range fn.Blocks {
		for _, in := range b.Instrs {
			switch x := in.(type) {
			case *ssa.Alloc:
				sites = append(sites, x)
			case *ssa.MakeMap:
				sites = append(sites, x)
			case *ssa.MakeSlice:
				sites = append(sites, x)
			}
		}
	}
	if len(sites) == 0 {
		eng.privCache[fn] = nil
		return nil
	}
	call := func(v ssa.Value, cc *ssa.CallCommon) {
		if b, ok := cc.Value.(*ssa.Builtin); ok && !cc.IsInvoke() {
			switch b.Name() {
			case "append":
				if len(cc.Args) == 2 {
					if v != nil {
						e.flow(v, cc.Args[0])
					}
					for x := range e.contentsOf(cc.Args[1], -1) {
						for s := range e.refsOf(cc.Args[0]) {
							if s == escPublic || e.escaped[s] {
								e.escapeSite(x)
								if s == escPublic {
									continue
								}
							}
							e.addContentSite(s, -1, x)
						}
					}
					return
				}
			case "copy":
				if len(cc.Args) == 2 {
					for x := range e.contentsOf(cc.Args[1], -1) {
						for s := range e.refsOf(cc.Args[0]) {
							if s == escPublic || e.escaped[s] {
								e.escapeSite(x)
								if s == escPublic {
									continue
								}
							}
							e.addContentSite(s, -1, x)
						}
					}
					return
				}
			case "len", "cap", "delete", "clear", "min", "max", "print", "println", "real", "imag", "complex":
				return
			}
		}
		if cc.IsInvoke() || cc.Value != nil {
			if _, isB := cc.Value.(*ssa.Builtin); !isB {
				e.escape(cc.Value)
			}
		}
		for _, a := range cc.Args {
			e.escape(a)
		}
		if v != nil {
			e.addRef(v, escPublic)
		}
	}
	for round := 0; round < 200; round++ {
		e.changed = false
		for _, s := range sites {
			e.addRef(s, s)
		}
		for _, b := range fn.Blocks {
			for _, in := range b.Instrs {
				switch x := in.(type) {
				case *ssa.Alloc, *ssa.MakeMap, *ssa.MakeSlice:
				case *ssa.FieldAddr:
					e.flow(x, x.X)
					if f, ok := e.field[x.X]; ok {
						e.setField(x, f)
					} else {
						e.setField(x, x.Field)
					}
				case *ssa.IndexAddr:
					e.flow(x, x.X)
					if f, ok := e.field[x.X]; ok {
						e.setField(x, f)
					}
				case *ssa.Field:
					e.flow(x, x.X)
				case *ssa.Index:
					e.flow(x, x.X)
				case *ssa.Slice:
					e.flow(x, x.X)
					if f, ok := e.field[x.X]; ok {
						e.setField(x, f)
					}
				case *ssa.Lookup:
					for s := range e.contentsOf(x.X, -1) {
						e.addRef(x, s)
					}
				case *ssa.Phi:
					fld, have, mixed := -1, false, false
					for _, ed := range x.Edges {
						e.flow(x, ed)
						if f, ok := e.field[ed]; ok {
							if have && f != fld {
								mixed = true
							}
							fld, have = f, true
						} else if len(e.refsOf(ed)) > 0 {
							mixed = true
						}
					}
					if have && !mixed {
						e.setField(x, fld)
					} else if have {
						e.setField(x, -1)
					}
				case *ssa.ChangeType:
					e.flow(x, x.X)
				case *ssa.ChangeInterface:
					e.flow(x, x.X)
				case *ssa.MakeInterface:
					e.flow(x, x.X)
				case *ssa.TypeAssert:
					e.flow(x, x.X)
				case *ssa.SliceToArrayPointer:
					e.flow(x, x.X)
				case *ssa.Convert:
					if isUnsafeOrUintptr(x.Type()) || isUnsafeOrUintptr(x.X.Type()) {
						e.escape(x.X)
						e.addRef(x, escPublic)
					} else {
						e.flow(x, x.X)
					}
				case *ssa.Extract:
					e.flow(x, x.Tuple)
				case *ssa.UnOp:
					switch x.Op.String() {
					case "*":
						for s := range e.contentsOf(x.X, e.fieldOf(x.X)) {
							e.addRef(x, s)
						}
					case "<-":
						e.addRef(x, escPublic)
					}
				case *ssa.Store:
					e.storeInto(x.Addr, e.fieldOf(x.Addr), x.Val)
				case *ssa.MapUpdate:
					e.storeInto(x.Map, -1, x.Key)
					e.storeInto(x.Map, -1, x.Value)
				case *ssa.Range:
					e.flow(x, x.X)
				case *ssa.Next:
					for s := range e.contentsOf(x.Iter, -1) {
						e.addRef(x, s)
					}
				case *ssa.Call:
					call(x, &x.Call)
				case *ssa.Go:
					call(nil, &x.Call)
				case *ssa.Defer:
					call(nil, &x.Call)
				case *ssa.MakeClosure:
					for _, bnd := range x.Bindings {
						e.escape(bnd)
					}
					e.addRef(x, escPublic)
				case *ssa.Send:
					e.escape(x.X)
					e.escape(x.Chan)
				case *ssa.Panic:
					e.escape(x.X)
				case *ssa.Select:
					for _, st := range x.States {
						if st.Send != nil {
							e.escape(st.Send)
						}
					}
					e.addRef(x, escPublic)
				case *ssa.MakeChan:
					e.addRef(x, escPublic)
				case *ssa.BinOp, *ssa.If, *ssa.Jump, *ssa.Return, *ssa.DebugRef, *ssa.RunDefers:
				default:
					// unknown instruction: whatever it touches escapes
					for _, op := range in.Operands(nil) {
						if *op != nil {
							e.escape(*op)
						}
					}
					if v, ok := in.(ssa.Value); ok {
						e.addRef(v, escPublic)
					}
				}
			}
		}
		// what an escaped object holds escapes with it
		for s := range e.escaped {
			for _, set := range e.contents[s] {
				for x := range set {
					e.escapeSite(x)
				}
			}
		}
		if !e.changed {
			break
		}
		if round == 199 {
			eng.privCache[fn] = nil
			return nil
		}
	}
	priv := map[ssa.Value]bool{}
	for _, s := range sites {
		if !e.escaped[s] {
			priv[s] = true
		}
	}
	eng.privCache[fn] = priv
	eng.escCache[fn] = e
	if os.Getenv("GOVC_ESC_DEBUG") != "" {
		for _, s := range sites {
			fmt.Fprintf(os.Stderr, "escape %s: %s = %s private=%v\n", fn.Name(), s.Name(), s.String(), priv[s])
		}
	}
	return priv
}

// keepPrivate: across a wholesale havoc (from -> to) the private objects of this frame and of the
// frames it is inlined into keep their contents.
func (f *frame) keepPrivate(from, to *heapState) {
	n := 0
	for fr := f; fr != nil; fr = fr.parent {
		n += fr.keepPrivateOf(f.c, from, to, f.guard, fr.cur, nil)
	}
	if n > 0 {
		f.c.assumed[privateAssumption] = true
	}
}

const privateAssumption = "objects allocated by the function and never handed to other code keep their contents across calls (escape analysis, engine/escape.go)"

// keepPrivateLoop: the wholesale havoc at the head of a loop (a loop that makes calls with unknown
// effect). The private objects of the enclosing frames cannot be written by the loop at all; of
// this frame's private objects allocated before the loop, the parts the loop's own instructions
// never write (per first-level field) keep their contents.
func (f *frame) keepPrivateLoop(from, to *heapState, head *ssa.BasicBlock, blocks map[*ssa.BasicBlock]bool, guard Term) {
	c := f.c
	n := 0
	for fr := f.parent; fr != nil; fr = fr.parent {
		n += fr.keepPrivateOf(c, from, to, guard, fr.cur, nil)
	}
	if priv := c.eng.privateSites(f.fn); len(priv) > 0 {
		e := c.eng.escCache[f.fn]
		written := map[ssa.Value]map[int]bool{}
		w := func(addr ssa.Value, fld int) {
			for s := range e.refsOf(addr) {
				if s == escPublic {
					continue
				}
				if written[s] == nil {
					written[s] = map[int]bool{}
				}
				if e.coarse[s] {
					fld = -1
				}
				written[s][fld] = true
			}
		}
		for b := range blocks {
			for _, in := range b.Instrs {
				switch x := in.(type) {
				case *ssa.Store:
					w(x.Addr, e.fieldOf(x.Addr))
				case *ssa.MapUpdate:
					w(x.Map, -1)
				case *ssa.Call:
					if bi, ok := x.Call.Value.(*ssa.Builtin); ok {
						switch bi.Name() {
						case "append", "copy", "delete", "clear":
							if len(x.Call.Args) > 0 {
								w(x.Call.Args[0], -1)
							}
						}
					}
				}
			}
		}
		n += f.keepPrivateOf(c, from, to, guard, head, func(site ssa.Value, fld int) bool {
			if blocks[site.(ssa.Instruction).Block()] {
				return true // allocated by the loop itself
			}
			return written[site][fld] || written[site][-1]
		})
	}
	if n > 0 {
		c.assumed[privateAssumption] = true
	}
}

// keepPrivateOf states, for the private allocation sites of frame fr that have been executed and
// dominate block at, that their contents in heap `to` are those in heap `from`.
func (fr *frame) keepPrivateOf(c *Ctx, from, to *heapState, guard Term, at *ssa.BasicBlock, skip func(site ssa.Value, fld int) bool) int {
	priv := c.eng.privateSites(fr.fn)
	if len(priv) == 0 || at == nil {
		return 0
	}
	n := 0
	for _, b := range fr.fn.Blocks {
		if !b.Dominates(at) {
			continue
		}
		for _, in := range b.Instrs {
			site, ok := in.(ssa.Value)
			if !ok || !priv[site] {
				continue
			}
			val, ok := fr.vals[site]
			if !ok {
				continue
			}
			t, ok := val.(Term)
			if !ok {
				continue
			}
			type ks struct {
				key, sort string
				fld       int
			}
			var keys []ks
			switch x := in.(type) {
			case *ssa.Alloc:
				elem := x.Type().(*types.Pointer).Elem()
				if st, ok := structOf(elem); ok {
					for i := 0; i < st.NumFields(); i++ {
						keys = append(keys, ks{fieldKey(elem, st, i), c.fieldSort(st, i), i})
					}
				} else if at, ok := types.Unalias(elem).Underlying().(*types.Array); ok {
					keys = append(keys, ks{elemKey(at.Elem()), c.elemSort(at.Elem()), -1})
				} else {
					keys = append(keys, ks{cellKey(elem), c.cellSort(elem), -1})
				}
			case *ssa.MakeMap:
				mt := types.Unalias(x.Type()).Underlying().(*types.Map)
				dk, vk, lk := mapKeys(x.Type())
				kso, vso := c.sortOf(mt.Key()), c.sortOf(mt.Elem())
				keys = append(keys, ks{dk, arraySort(SInt, arraySort(kso, SBool)), -1}, ks{vk, arraySort(SInt, arraySort(kso, vso)), -1}, ks{lk, arraySort(SInt, SInt), -1})
			case *ssa.MakeSlice:
				et := types.Unalias(x.Type()).Underlying().(*types.Slice).Elem()
				keys = append(keys, ks{elemKey(et), c.elemSort(et), -1})
				t = sBase(t)
			}
			for _, k := range keys {
				if skip != nil && skip(site, k.fld) {
					continue
				}
				if _, have := from.arrays[k.key]; !have {
					if _, known := c.eng.heapSorts[k.key]; !known {
						continue // never read or written so far
					}
				}
				c.assume(implies(guard, eq(sel(c.heapGet(to, k.key, k.sort), t), sel(c.heapGet(from, k.key, k.sort), t))))
				n++
			}
		}
	}
	return n
}
