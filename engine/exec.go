package main

import (
	"fmt"
	"go/ast"
	"go/token"
	"go/types"
	"sort"
	"strings"

	"golang.org/x/tools/go/ssa"
)

// Val is an executor-side value: Term, *Addr, Tuple, *Closure, *MapIter.
type Val interface{}

type Tuple []Val

type Closure struct {
	Fn       *ssa.Function
	Bindings []Val
}

type MapIter struct {
	Map     Val
	MapType types.Type
	IsStr   bool
}

const (
	aStruct = iota // pointer to a struct object: one heap array per field
	aElem          // element Idx of backing store Base
	aCell          // pointer to a non-struct cell
)

type pstep struct {
	field int  // >=0: struct field
	idx   Term // array index when field < 0
	cont  types.Type
}

type Addr struct {
	Kind int
	Base Term
	Idx  Term
	Typ  types.Type // struct type (aStruct), element type (aElem), cell type (aCell)
	Path []pstep
}

func (a *Addr) with(p pstep) *Addr {
	n := *a
	n.Path = append(append([]pstep{}, a.Path...), p)
	return &n
}

// pointee type of the address
func (a *Addr) target() types.Type {
	t := a.Typ
	for _, p := range a.Path {
		if p.field >= 0 {
			st, _ := structOf(t)
			t = st.Field(p.field).Type()
		} else {
			t = types.Unalias(t).Underlying().(*types.Array).Elem()
		}
	}
	return t
}

type edgeKey struct {
	from *ssa.BasicBlock
	succ int
}

type estate struct {
	cond Term
	heap *heapState
}

type retRec struct {
	cond Term
	vals []Val
	heap *heapState
	pos  token.Pos
	blk  *ssa.BasicBlock
	dyn  []types.Type
}

type deferRec struct {
	call  *ssa.CallCommon
	args  []Val
	fnVal Val
	guard Term
	pos   token.Pos
}

type loopInfo struct {
	header  *ssa.BasicBlock
	blocks  map[*ssa.BasicBlock]bool
	ordinal int
}

type frame struct {
	c        *Ctx
	fnVariant0 Term // value of the function-level variant at entry (recursion)
	fn       *ssa.Function
	vals     map[ssa.Value]Val
	edges    map[edgeKey]*estate
	reach    map[*ssa.BasicBlock]Term
	loops    map[*ssa.BasicBlock]*loopInfo
	rets     []retRec
	defers   []deferRec
	contract *Contract
	top      bool
	freeVars []Val
	entry    *heapState // heap at function entry (for old())
	params   map[string]SVal
	lets     map[string]SVal
	dynType  map[ssa.Value]types.Type
	debug    map[string][]ssa.Value
	debugAddr map[string]ssa.Value
	debugRefs map[string][]*ssa.DebugRef
	heap     *heapState // current heap while executing a block
	cur      *ssa.BasicBlock
	guard    Term // reach condition of the current block
	callOrd  map[string]int
	panics   []Term
	depth    int
	callerPos token.Pos
	entryGuard Term
	parent   *frame // the frame this one is inlined into
}

func (f *frame) forkWith(c *Ctx) *frame {
	n := *f
	n.c = c
	n.vals = cloneMap(f.vals)
	n.edges = cloneMap(f.edges)
	n.reach = cloneMap(f.reach)
	n.dynType = cloneMap(f.dynType)
	n.callOrd = cloneMap(f.callOrd)
	n.rets = f.rets[:len(f.rets):len(f.rets)]
	n.defers = f.defers[:len(f.defers):len(f.defers)]
	n.panics = f.panics[:len(f.panics):len(f.panics)]
	if f.heap != nil {
		n.heap = f.heap.clone()
	}
	return &n
}

func newFrame(c *Ctx, fn *ssa.Function) *frame {
	f := &frame{c: c, fn: fn, vals: map[ssa.Value]Val{}, edges: map[edgeKey]*estate{}, reach: map[*ssa.BasicBlock]Term{},
		dynType: map[ssa.Value]types.Type{}, callOrd: map[string]int{}, params: map[string]SVal{}, lets: map[string]SVal{}}
	f.findLoops()
	f.debug = map[string][]ssa.Value{}
	f.debugAddr = map[string]ssa.Value{}
	f.debugRefs = map[string][]*ssa.DebugRef{}
	for _, b := range fn.Blocks {
		for _, in := range b.Instrs {
			if d, ok := in.(*ssa.DebugRef); ok {
				if id, ok := d.Expr.(*ast.Ident); ok {
					if !d.IsAddr {
						f.debug[id.Name] = append(f.debug[id.Name], d.X)
						f.debugRefs[id.Name] = append(f.debugRefs[id.Name], d)
					} else if _, isAlloc := d.X.(*ssa.Alloc); isAlloc {
						// address-taken local: the name denotes the variable's cell (auto-dereferenced in specs)
						f.debugAddr[id.Name] = d.X
					}
				}
			}
		}
	}
	// named results and other locals kept in memory (e.g. because of a defer): the Alloc carries the
	// variable's name even when no address-typed debug reference exists
	for _, a := range fn.Locals {
		if a.Comment != "" && f.debugAddr[a.Comment] == nil {
			f.debugAddr[a.Comment] = a
		}
	}
	return f
}

func (f *frame) pos(p token.Pos) token.Position {
	if !p.IsValid() && f.callerPos.IsValid() {
		p = f.callerPos
	}
	return f.c.eng.fset.Position(p)
}

// ---------------------------------------------------------------------------
// Loops

func (f *frame) findLoops() {
	f.loops = map[*ssa.BasicBlock]*loopInfo{}
	for _, b := range f.fn.Blocks {
		for _, s := range b.Succs {
			if s.Dominates(b) { // back edge b -> s
				li := f.loops[s]
				if li == nil {
					li = &loopInfo{header: s, blocks: map[*ssa.BasicBlock]bool{s: true}}
					f.loops[s] = li
				}
				// natural loop: all blocks that reach b without passing s
				stack := []*ssa.BasicBlock{b}
				for len(stack) > 0 {
					x := stack[len(stack)-1]
					stack = stack[:len(stack)-1]
					if li.blocks[x] {
						continue
					}
					li.blocks[x] = true
					stack = append(stack, x.Preds...)
				}
			}
		}
	}
	var hs []*ssa.BasicBlock
	for h := range f.loops {
		hs = append(hs, h)
	}
	sort.Slice(hs, func(i, j int) bool { return loopPos(hs[i]) < loopPos(hs[j]) })
	for i, h := range hs {
		f.loops[h].ordinal = i + 1
	}
}

// loopPos orders loop headers by source position (falls back to block index).
func loopPos(h *ssa.BasicBlock) int {
	best := token.Pos(0)
	for _, in := range h.Instrs {
		if p := in.Pos(); p.IsValid() && (best == 0 || p < best) {
			best = p
		}
	}
	if best == 0 {
		// headers consisting of phis/ifs only: use the first positioned instruction of the loop body successor
		for _, s := range h.Succs {
			for _, in := range s.Instrs {
				if p := in.Pos(); p.IsValid() && (best == 0 || p < best) {
					best = p
				}
			}
		}
	}
	return int(best)*1000 + h.Index
}

func rpo(fn *ssa.Function) []*ssa.BasicBlock {
	seen := map[*ssa.BasicBlock]bool{}
	var post []*ssa.BasicBlock
	var visit func(b *ssa.BasicBlock)
	visit = func(b *ssa.BasicBlock) {
		seen[b] = true
		for _, s := range b.Succs {
			if !seen[s] {
				visit(s)
			}
		}
		post = append(post, b)
	}
	visit(fn.Blocks[0])
	for i, j := 0, len(post)-1; i < j; i, j = i+1, j-1 {
		post[i], post[j] = post[j], post[i]
	}
	return post
}

// ---------------------------------------------------------------------------
// Region execution

type blockEntry struct {
	reach Term
	heap  *heapState
	conds []Term // per predecessor (aligned with b.Preds); tFalse when the edge was not produced
}

func succIndexFor(pred, b *ssa.BasicBlock, occurrence int) int {
	n := 0
	for k, s := range pred.Succs {
		if s == b {
			if n == occurrence {
				return k
			}
			n++
		}
	}
	return -1
}

// incoming computes the edge keys of b's predecessors, aligned with b.Preds.
func incoming(b *ssa.BasicBlock) []edgeKey {
	occ := map[*ssa.BasicBlock]int{}
	keys := make([]edgeKey, len(b.Preds))
	for i, p := range b.Preds {
		keys[i] = edgeKey{p, succIndexFor(p, b, occ[p])}
		occ[p]++
	}
	return keys
}

func (f *frame) mergeEntry(b *ssa.BasicBlock, only func(p *ssa.BasicBlock) bool) *blockEntry {
	keys := incoming(b)
	be := &blockEntry{conds: make([]Term, len(keys))}
	var conds []Term
	var heaps []*heapState
	for i, k := range keys {
		be.conds[i] = tFalse
		if only != nil && !only(k.from) {
			continue
		}
		es := f.edges[k]
		if es == nil || es.cond.IsFalse() {
			continue
		}
		be.conds[i] = es.cond
		conds = append(conds, es.cond)
		heaps = append(heaps, es.heap)
	}
	if len(conds) == 0 {
		return nil
	}
	be.reach = f.c.name("reach "+b.String(), or(conds...))
	be.heap = f.c.mergeHeaps(conds, heaps)
	return be
}

func (f *frame) runRegion(order []*ssa.BasicBlock, in map[*ssa.BasicBlock]bool, header *ssa.BasicBlock, hentry *blockEntry) {
	done := map[*ssa.BasicBlock]bool{}
	for _, b := range order {
		if (in != nil && !in[b]) || done[b] {
			continue
		}
		if li := f.loops[b]; li != nil && b != header {
			f.runLoop(li, order)
			for x := range li.blocks {
				done[x] = true
			}
			continue
		}
		var be *blockEntry
		if b == header && hentry != nil {
			be = hentry
		} else if b.Index == 0 && header == nil {
			be = &blockEntry{reach: f.entryGuard, heap: f.heap}
		} else {
			be = f.mergeEntry(b, nil)
		}
		done[b] = true
		if be == nil {
			continue // unreachable
		}
		f.execBlock(b, be)
	}
}

func (f *frame) phiValue(phi *ssa.Phi, be *blockEntry, skip func(i int) bool) Val {
	var result Val
	first := true
	for i := len(phi.Edges) - 1; i >= 0; i-- {
		if be.conds[i].IsFalse() || (skip != nil && skip(i)) {
			continue
		}
		v := f.get(phi.Edges[i])
		if first {
			result = v
			first = false
			continue
		}
		result = f.iteVal(be.conds[i], v, result)
	}
	if first {
		unsup("phi %s without live incoming edge", phi.Name())
	}
	return result
}

func (f *frame) iteVal(c Term, a, b Val) Val {
	switch x := a.(type) {
	case Term:
		y, ok := b.(Term)
		if !ok {
			y = f.asTerm(b)
		}
		return ite(c, x, y)
	case Tuple:
		y := b.(Tuple)
		out := make(Tuple, len(x))
		for i := range x {
			out[i] = f.iteVal(c, x[i], y[i])
		}
		return out
	case *Addr:
		if y, ok := b.(*Addr); ok && addrEqual(x, y) {
			return x
		}
		return ite(c, f.asTerm(a), f.asTerm(b))
	case *Closure:
		if y, ok := b.(*Closure); ok && y.Fn == x.Fn {
			same := true
			for i := range x.Bindings {
				if fmt.Sprint(x.Bindings[i]) != fmt.Sprint(y.Bindings[i]) {
					same = false
				}
			}
			if same {
				return x
			}
		}
	}
	unsup("cannot merge values %T / %T", a, b)
	return nil
}

func addrEqual(a, b *Addr) bool {
	if a.Kind != b.Kind || a.Base.S != b.Base.S || a.Idx.S != b.Idx.S || len(a.Path) != len(b.Path) {
		return false
	}
	for i := range a.Path {
		if a.Path[i].field != b.Path[i].field || a.Path[i].idx.S != b.Path[i].idx.S {
			return false
		}
	}
	return true
}

func (f *frame) execBlock(b *ssa.BasicBlock, be *blockEntry) {
	f.cur = b
	f.guard = be.reach
	f.reach[b] = be.reach
	f.heap = be.heap
	for _, in := range b.Instrs {
		if phi, ok := in.(*ssa.Phi); ok {
			if _, set := f.vals[phi]; set && f.loops[b] != nil {
				continue // loop header phi: already havoced by runLoop
			}
			v := f.phiValue(phi, be, nil)
			if t, ok := v.(Term); ok {
				v = f.c.name(f.vname(phi), t)
			}
			f.vals[phi] = v
			continue
		}
		f.execInstr(in)
		if f.guard.IsFalse() {
			break
		}
	}
}

func (f *frame) vname(v ssa.Value) string {
	return fmt.Sprintf("%s.%s", f.fn.Name(), v.Name())
}

func (f *frame) setEdge(b *ssa.BasicBlock, succ int, cond Term) {
	f.edges[edgeKey{b, succ}] = &estate{cond: f.c.name("edge", cond), heap: f.heap.clone()}
}

// ---------------------------------------------------------------------------
// Loop handling: cut at the header.

func (f *frame) loopSpec(li *loopInfo) *LoopSpec {
	if f.contract == nil || !f.top {
		return nil
	}
	return f.contract.Loops[li.ordinal]
}

func (f *frame) runLoop(li *loopInfo, order []*ssa.BasicBlock) {
	c := f.c
	h := li.header
	outside := func(p *ssa.BasicBlock) bool { return !li.blocks[p] }
	inside := func(p *ssa.BasicBlock) bool { return li.blocks[p] }
	be := f.mergeEntry(h, outside)
	if be == nil {
		return
	}
	spec := f.loopSpec(li)
	var phis []*ssa.Phi
	for _, in := range h.Instrs {
		if p, ok := in.(*ssa.Phi); ok {
			phis = append(phis, p)
		}
	}
	keys := incoming(h)
	// values on entry
	entryVals := map[*ssa.Phi]Val{}
	for _, p := range phis {
		entryVals[p] = f.phiValue(p, be, nil)
	}
	lname := fmt.Sprintf("%s#loop%d", shortFn(f.fn), li.ordinal)
	// 1. invariants on entry
	if spec != nil {
		env := f.loopEnv(li, entryVals, be.heap)
		for i, inv := range spec.Invariants {
			f.obligeClause("invariant-entry", fmt.Sprintf("%s.inv%d@entry", lname, i+1), env, inv, be.reach, f.pos(h.Instrs[0].Pos()), false)
		}
	}
	// 2. dry run to find what the loop writes
	dc := c.fork()
	df := f.forkWith(dc)
	dheap := dc.newEpoch()
	for _, p := range phis {
		df.vals[p] = df.havocVal(p.Type(), df.vname(p), dheap)
	}
	df.runRegion(order, li.blocks, h, &blockEntry{reach: tTrue, heap: dheap, conds: make([]Term, len(keys))})
	wholesale := false
	for _, k := range keys {
		if es := df.edges[k]; es != nil && li.blocks[k.from] && es.heap.epoch != dheap.epoch {
			wholesale = true
		}
	}
	// exits with a different epoch also indicate a wholesale havoc inside the loop
	for b := range li.blocks {
		for k := range b.Succs {
			if es := df.edges[edgeKey{b, k}]; es != nil && es.heap.epoch != dheap.epoch {
				wholesale = true
			}
		}
	}
	for k := range dc.assumed {
		c.assumed[k] = true
	}
	// 3. havoc
	type frameKey struct {
		k, srt string
		old    Term
		excl   string // excluded objects (`frame modifies`), with %Q% for the bound variable
		mark   Term   // allocation watermark: objects that existed then are the ones that must be unchanged
	}
	var frameKeys []frameKey
	// `frame loop e, ...`: the buffers the loop may write — each stays the object it was at loop
	// entry or moves to an object allocated after loop entry (append reallocating); an invariant
	// generated for every named expression, assumed at the head and proved at the back edges
	type loopBuf struct {
		e         Expr
		entryBase Term
	}
	var loopBufs []loopBuf
	var loopMark Term
	var heap1 *heapState
	if wholesale {
		heap1 = c.newEpoch()
		old := c.nalloc(be.heap)
		c.assume(implies(be.reach, ge(c.nalloc(heap1), old)))
		c.keepGhost(be.heap, heap1, dc.writes)
		f.keepPrivateLoop(be.heap, heap1, h, li.blocks, be.reach)
	} else {
		heap1 = be.heap.clone()
		var ws []string
		for k := range dc.writes {
			ws = append(ws, k)
		}
		sort.Strings(ws)
		for _, k := range ws {
			srt := c.eng.heapSorts[k]
			nv := c.fresh(k+"~loop", srt)
			if k == allocKey {
				c.assume(ge(nv, c.heapGet(be.heap, k, srt)))
			} else if !dc.nonFresh[k] && strings.HasPrefix(srt, "(Array Int ") && basesInvariant(dc.writeBases[k], c.defined) {
				// the loop writes this array only at objects it allocates itself and at objects named
				// by loop-invariant terms: every other object that existed at loop entry is unchanged
				c.counter["q"]++
				q := quote(fmt.Sprintf("q ref %d", c.counter["q"]))
				old := c.heapGet(be.heap, k, srt)
				conds := []string{fmt.Sprintf("(>= %s (- %s))", q, c.nalloc(be.heap).S)}
				var bs []string
				for b := range dc.writeBases[k] {
					bs = append(bs, b)
				}
				sort.Strings(bs)
				for _, b := range bs {
					conds = append(conds, fmt.Sprintf("(not (= %s %s))", q, b))
					if c.writeBases[k] == nil {
						c.writeBases[k] = map[string]Term{}
					}
					if !c.freshRefs[b] {
						c.writeBases[k][b] = dc.writeBases[k][b]
					}
				}
				c.assume(Term{fmt.Sprintf("(forall ((%s Int)) (! (=> (and %s) (= (select %s %s) (select %s %s))) :pattern ((select %s %s))))",
					q, strings.Join(conds, " "), nv.S, q, old.S, q, nv.S, q), SBool})
			} else if k != allocKey && spec != nil && spec.FrameEntry && strings.HasPrefix(srt, "(Array Int ") && f.entry != nil {
				// `loop k: frame entry`: the loop does not modify objects that existed at FUNCTION entry
				// (it writes to memory allocated by the function only). Assumed for the havoced array
				// here, proved at every back edge below.
				c.nonFresh[k] = true
				excl := ""
				skip := false
				mark := c.nalloc(f.entry)
				if spec.FrameLoop {
					// `loop k: frame loop e, ...`: the watermark is the loop's own entry; the objects the
					// expressions denote there (a slice's backing array, a pointer's or map's object) may
					// change — typically the buffer the loop fills, or nothing at all
					mark = c.nalloc(be.heap)
					env := f.loopEnv(li, entryVals, be.heap)
					for _, e := range spec.FrameLoopX {
						v := f.evalSpec(env, e)
						t := v.T
						if t.Sort == SSlice {
							t = sBase(t)
						}
						excl += fmt.Sprintf(" (not (= %s %s))", "%Q%", t.S)
					}
				}
				if spec.FrameMod && f.contract != nil {
					// `loop k: frame modifies`: ... except the objects named by the function's modifies clause
					allowed, whole, all := f.frameAllowed(f.contract)
					if all || whole[k] {
						skip = true
					}
					for _, a := range allowed[k] {
						excl += fmt.Sprintf(" (not (= %s %s))", "%Q%", a.S)
					}
				}
				if !skip {
					c.counter["q"]++
					q := quote(fmt.Sprintf("q ref %d", c.counter["q"]))
					old := c.heapGet(be.heap, k, srt)
					ex := strings.ReplaceAll(excl, "%Q%", q)
					c.assume(Term{fmt.Sprintf("(forall ((%s Int)) (! (=> (and (>= %s (- %s))%s) (= (select %s %s) (select %s %s))) :pattern ((select %s %s))))",
						q, q, mark.S, ex, nv.S, q, old.S, q, nv.S, q), SBool})
					frameKeys = append(frameKeys, frameKey{k, srt, old, excl, mark})
				}
			} else if k != allocKey {
				c.nonFresh[k] = true
			}
			heap1.arrays[k] = nv
			c.writes[k] = true
		}
	}
	if spec != nil && spec.FrameLoop {
		loopMark = c.name("loopmark", c.nalloc(be.heap))
		env := f.loopEnv(li, entryVals, be.heap)
		for _, e := range spec.FrameLoopX {
			v := f.evalSpec(env, e)
			t := v.T
			if t.Sort == SSlice {
				t = sBase(t)
			}
			loopBufs = append(loopBufs, loopBuf{e, c.name("loopbuf", t)})
		}
	}
	hv := map[*ssa.Phi]Val{}
	nLoopInts := len(c.loopInts)
	for _, p := range phis {
		v := f.havocVal(p.Type(), f.vname(p), heap1)
		f.vals[p] = v
		hv[p] = v
		if t, ok := v.(Term); ok && t.Sort == SInt && isSymbol(t.S) {
			if _, isInt := basicInt(p.Type()); isInt {
				c.loopInts = append(c.loopInts, t.S)
			}
		}
	}
	defer func() { c.loopInts = c.loopInts[:nLoopInts] }()
	reachH := be.reach
	// 4. assume invariants
	var variant0, variant0b Term
	if spec != nil {
		env := f.loopEnv(li, hv, heap1)
		for _, inv := range spec.Invariants {
			f.assumeClause(env, inv, reachH)
		}
		for _, lb := range loopBufs {
			t := f.evalSpec(env, lb.e).T
			if t.Sort == SSlice {
				t = sBase(t)
			}
			c.assume(implies(reachH, or(eq(t, lb.entryBase), lt(t, mk(SInt, "-", loopMark)))))
		}
		for _, as := range spec.Assumes {
			f.assumeClause(env, as, reachH)
			c.assumed[fmt.Sprintf("assumed at the head of loop %d of %s (not proved): %s", li.ordinal, shortFn(f.fn), as.Text)] = true
		}
		if spec.Decreases != nil {
			if lx, ok := spec.Decreases.E.(*ECall); ok && lx.Fun == "lex" && len(lx.Args) == 2 {
				// lexicographic variant lex(a, b)
				variant0 = c.name("variant", f.evalSpec(env, lx.Args[0]).T)
				variant0b = c.name("variantb", f.evalSpec(env, lx.Args[1]).T)
			} else {
				variant0 = c.name("variant", f.evalSpec(env, spec.Decreases.E).T)
			}
		}
	}
	// automatically derived bounds of canonical induction variables (range loops)
	f.autoInductionFacts(li, phis, hv, entryVals, reachH)
	// 5. body
	f.runRegion(order, li.blocks, h, &blockEntry{reach: reachH, heap: heap1, conds: make([]Term, len(keys))})
	// 5b. exit clauses: proved on every edge leaving the loop, in the state of the exiting iteration
	if spec != nil && len(spec.Exits) > 0 {
		for b := range li.blocks {
			for si, s := range b.Succs {
				if li.blocks[s] {
					continue
				}
				es := f.edges[edgeKey{b, si}]
				if es == nil || es.cond.IsFalse() {
					continue
				}
				env := f.loopEnv(li, hv, es.heap)
				for j, ex := range spec.Exits {
					f.obligeClause("loop-exit", fmt.Sprintf("%s.exit%d@from%d", lname, j+1, b.Index), env, ex, es.cond, f.pos(lastPos(b)), false)
				}
			}
		}
	}
	// 6. back edges
	for i, k := range keys {
		if !inside(k.from) {
			continue
		}
		es := f.edges[k]
		if es == nil || es.cond.IsFalse() {
			continue
		}
		if spec == nil {
			continue
		}
		backVals := map[*ssa.Phi]Val{}
		for _, p := range phis {
			backVals[p] = f.get(p.Edges[i])
		}
		env := f.loopEnv(li, backVals, es.heap)
		for j, inv := range spec.Invariants {
			f.obligeClause("invariant-step", fmt.Sprintf("%s.inv%d@back%d", lname, j+1, k.from.Index), env, inv, es.cond, f.pos(lastPos(k.from)), false)
		}
		for j, lb := range loopBufs {
			t := f.evalSpec(env, lb.e).T
			if t.Sort == SSlice {
				t = sBase(t)
			}
			c.oblige("frame", fmt.Sprintf("%s.framebuf%d@back%d", lname, j+1, k.from.Index), es.cond, or(eq(t, lb.entryBase), lt(t, mk(SInt, "-", loopMark))), f.pos(lastPos(k.from)), "loop frame: the buffer named by `frame loop` is the object it was at loop entry or one allocated since")
		}
		for _, fk := range frameKeys {
			c.counter["q"]++
			q := quote(fmt.Sprintf("q ref %d", c.counter["q"]))
			cur := c.heapGet(es.heap, fk.k, fk.srt)
			goal := Term{fmt.Sprintf("(forall ((%s Int)) (=> (and (>= %s (- %s))%s) (= (select %s %s) (select %s %s))))", q, q, fk.mark.S, strings.ReplaceAll(fk.excl, "%Q%", q), cur.S, q, fk.old.S, q), SBool}
			c.oblige("frame", fmt.Sprintf("%s.frame:%s@back%d", lname, frameKeyName(fk.k), k.from.Index), es.cond, goal, f.pos(lastPos(k.from)), "loop frame: objects that existed at the frame's reference point (function entry / loop entry) and are not named by it are unchanged ("+frameKeyName(fk.k)+")")
		}
		if spec.Decreases != nil {
			if lx, ok := spec.Decreases.E.(*ECall); ok && lx.Fun == "lex" && len(lx.Args) == 2 {
				a1 := f.evalSpec(env, lx.Args[0]).T
				b1 := f.evalSpec(env, lx.Args[1]).T
				goal := and(ge(variant0, tZero), ge(variant0b, tZero), or(lt(a1, variant0), and(eq(a1, variant0), lt(b1, variant0b))))
				c.oblige("decreases", fmt.Sprintf("%s.decreases@back%d", lname, k.from.Index), es.cond, goal, f.pos(lastPos(k.from)), spec.Decreases.Text)
			} else {
				v1 := f.evalSpec(env, spec.Decreases.E).T
				c.oblige("decreases", fmt.Sprintf("%s.decreases@back%d", lname, k.from.Index), es.cond, and(ge(variant0, tZero), lt(v1, variant0)), f.pos(lastPos(k.from)), spec.Decreases.Text)
			}
		}
		// the back edge is consumed
		es.cond = tFalse
	}
	for _, k := range keys {
		if inside(k.from) {
			if es := f.edges[k]; es != nil {
				es.cond = tFalse
			}
		}
	}
}

func lastPos(b *ssa.BasicBlock) token.Pos {
	for i := len(b.Instrs) - 1; i >= 0; i-- {
		if p := b.Instrs[i].Pos(); p.IsValid() {
			return p
		}
	}
	return token.NoPos
}

func shortFn(fn *ssa.Function) string {
	s := fn.String()
	if fn.Pkg != nil {
		s = strings.ReplaceAll(s, fn.Pkg.Pkg.Path()+".", "")
	}
	return s
}

// autoInductionFacts: for i = phi(c0, i + k) with constant k > 0 assume i >= c0 (and
// symmetric for k < 0). These are true facts of canonical induction variables provided
// the addition does not wrap; wrap is excluded because the loop guard bounds i by a
// value of the same type (only applied to range-index phis generated by go/ssa).
func (f *frame) autoInductionFacts(li *loopInfo, phis []*ssa.Phi, hv, entry map[*ssa.Phi]Val, reach Term) {
	for _, p := range phis {
		if p.Comment != "rangeindex" {
			continue
		}
		t, ok := hv[p].(Term)
		if !ok {
			continue
		}
		// a range index over a slice/array/string is below the length, which is at most 2^62
		f.c.assume(implies(reach, and(ge(t, intLit(-1)), lt(t, Term{"4611686018427387904", SInt}))))
		// go/ssa's range loops: header is  i = phi+1; if i < n  with n (the length) computed before the
		// loop. phi starts at -1 and is only advanced to i when i < n held, so phi+1 <= n at the header.
		for _, in := range li.header.Instrs {
			cmp, ok := in.(*ssa.BinOp)
			if !ok || cmp.Op != token.LSS {
				continue
			}
			inc, ok := cmp.X.(*ssa.BinOp)
			if !ok || inc.Op != token.ADD || inc.X != ssa.Value(p) {
				continue
			}
			if k, isConst := inc.Y.(*ssa.Const); !isConst || k.Int64() != 1 {
				continue
			}
			if ni, isInstr := cmp.Y.(ssa.Instruction); isInstr && li.blocks[ni.Block()] {
				continue
			}
			if call, isCall := cmp.Y.(*ssa.Call); !isCall {
				continue
			} else if b, isB := call.Call.Value.(*ssa.Builtin); !isB || b.Name() != "len" {
				continue
			}
			if nv, have := f.vals[cmp.Y]; have {
				if n, ok := nv.(Term); ok {
					f.c.assume(implies(reach, and(le(add(t, tOne), n), ge(n, tZero))))
				}
			}
		}
	}
}

// havocVal creates an unconstrained value of a Go type with its type invariant assumed.
func (f *frame) havocVal(t types.Type, hint string, h *heapState) Val {
	if tup, ok := t.(*types.Tuple); ok {
		out := make(Tuple, tup.Len())
		for i := range out {
			out[i] = f.havocVal(tup.At(i).Type(), fmt.Sprintf("%s.%d", hint, i), h)
		}
		return out
	}
	v := f.c.fresh(hint, f.c.sortOf(t))
	f.c.assume(f.c.typeInv(v, t, f.c.nalloc(h), 0))
	return v
}

// loopEnv builds the spec environment at a loop header for given phi values.
func (f *frame) loopEnv(li *loopInfo, phiVals map[*ssa.Phi]Val, heap *heapState) *specEnv {
	env := f.baseEnv(heap)
	env.resolve = func(name string) (SVal, bool) {
		// 1. phi of this header by source name
		for p, v := range phiVals {
			if p.Comment == name {
				return f.sval(v, p.Type()), true
			}
		}
		// 1b. idx<N>: the range index of loop N (phi+1: the next index at the loop's own header,
		// the current index inside its body)
		if strings.HasPrefix(name, "idx") {
			var n int
			if _, err := fmt.Sscanf(name, "idx%d", &n); err == nil {
				for _, l2 := range f.loops {
					if l2.ordinal != n {
						continue
					}
					for _, in := range l2.header.Instrs {
						p, ok := in.(*ssa.Phi)
						if !ok || p.Comment != "rangeindex" {
							continue
						}
						if pv, ok := phiVals[p]; ok {
							return SVal{T: add(pv.(Term), tOne), GoT: p.Type()}, true
						}
						if have, ok := f.vals[p]; ok {
							return SVal{T: add(have.(Term), tOne), GoT: p.Type()}, true
						}
					}
				}
			}
		}
		// 1b'. rlen<N>: the length range loop N iterates to (evaluated once, before the loop)
		if strings.HasPrefix(name, "rlen") {
			var n int
			if _, err := fmt.Sscanf(name, "rlen%d", &n); err == nil {
				for _, l2 := range f.loops {
					if l2.ordinal != n || len(l2.header.Instrs) == 0 {
						continue
					}
					if iff, ok := l2.header.Instrs[len(l2.header.Instrs)-1].(*ssa.If); ok {
						if bo, ok := iff.Cond.(*ssa.BinOp); ok && bo.Op == token.LSS {
							if have, ok := f.vals[bo.Y]; ok {
								if t, ok := have.(Term); ok {
									return SVal{T: t, GoT: bo.Y.Type()}, true
								}
							}
							if cst, ok := bo.Y.(*ssa.Const); ok {
								return SVal{T: f.c.constTerm(cst), GoT: bo.Y.Type()}, true
							}
						}
					}
				}
			}
		}
		// 1c. address-taken locals
		if v, ok := f.addrVar(name, heap); ok {
			return v, true
		}
		// 2. debug-named values
		cands := f.debug[name]
		var best ssa.Value
		for _, v := range cands {
			if p, ok := v.(*ssa.Phi); ok {
				if pv, ok := phiVals[p]; ok {
					return f.sval(pv, p.Type()), true
				}
			}
			in, ok := v.(ssa.Instruction)
			if !ok {
				if _, isParam := v.(*ssa.Parameter); isParam {
					best = v
				}
				continue
			}
			blk := in.Block()
			if blk == li.header {
				if t, ok := f.evalPure(v, li, phiVals); ok {
					return SVal{T: t, GoT: v.Type()}, true
				}
				continue
			}
		}
		_ = best
		// 3. the closest definition/use outside the loop that dominates the header
		if v, ok := f.lookupLocalFiltered(name, li.header, func(b *ssa.BasicBlock) bool { return li.blocks[b] }); ok {
			return f.sval(f.get(v), v.Type()), true
		}
		// 4. a value of that name whose definition dominates the header (e.g. a type-switch binding
		// that is only mentioned inside the loop)
		var last ssa.Value
		for _, v := range cands {
			if in, ok := v.(ssa.Instruction); ok && !li.blocks[in.Block()] && in.Block().Dominates(li.header) {
				if _, have := f.vals[v]; have {
					last = v
				}
			}
		}
		if last != nil {
			return f.sval(f.get(last), last.Type()), true
		}
		return SVal{}, false
	}
	return env
}

// evalPure re-evaluates a pure header-block value under substituted phi values.
func (f *frame) evalPure(v ssa.Value, li *loopInfo, phiVals map[*ssa.Phi]Val) (Term, bool) {
	switch x := v.(type) {
	case *ssa.Phi:
		if pv, ok := phiVals[x]; ok {
			t, ok := pv.(Term)
			return t, ok
		}
	case *ssa.Const:
		return f.c.constTerm(x), true
	case *ssa.Parameter:
		t, ok := f.get(x).(Term)
		return t, ok
	case *ssa.BinOp:
		if x.Block() != li.header {
			break
		}
		a, ok1 := f.evalPure(x.X, li, phiVals)
		b, ok2 := f.evalPure(x.Y, li, phiVals)
		if ok1 && ok2 {
			return f.binop(x.Op, a, b, x.X.Type(), x.Type(), x.Pos(), true), true
		}
		return Term{}, false
	case *ssa.Convert:
		if x.Block() != li.header {
			break
		}
		a, ok := f.evalPure(x.X, li, phiVals)
		if ok {
			return f.convert(a, x.X.Type(), x.Type()), true
		}
		return Term{}, false
	case *ssa.ChangeType:
		if x.Block() != li.header {
			break
		}
		return f.evalPure(x.X, li, phiVals)
	}
	if in, ok := v.(ssa.Instruction); ok {
		if !li.blocks[in.Block()] {
			if have, ok := f.vals[v]; ok {
				t, ok := have.(Term)
				return t, ok
			}
		}
	}
	return Term{}, false
}

// ---------------------------------------------------------------------------
// Values

func (f *frame) get(v ssa.Value) Val {
	switch x := v.(type) {
	case *ssa.Const:
		return f.c.constTerm(x)
	case *ssa.Function:
		return &Closure{Fn: x}
	case *ssa.Global:
		name := quote("glob " + x.String())
		f.c.decl("glob "+name, fmt.Sprintf("(declare-const %s Int)", name))
		f.c.decl("globpos "+name, fmt.Sprintf("(assert (> %s 0))", name))
		return Term{name, SInt}
	case *ssa.FreeVar:
		for i, fv := range f.fn.FreeVars {
			if fv == x {
				return f.freeVars[i]
			}
		}
	case *ssa.Builtin:
		return x
	}
	if val, ok := f.vals[v]; ok {
		return val
	}
	unsup("value %s (%T) used before definition in %s", v.Name(), v, f.fn)
	return nil
}

func (f *frame) term(v ssa.Value) Term {
	return f.asTerm(f.get(v))
}

var frefIDs = map[string]int{}

func (f *frame) asTerm(v Val) Term {
	switch x := v.(type) {
	case Term:
		return x
	case *Addr:
		if len(x.Path) == 0 && x.Kind != aElem {
			return x.Base
		}
		// identity encoding of interior addresses
		t := x.Base
		if x.Kind == aElem {
			t = mk(SInt, "eref", t, x.Idx)
		}
		for _, p := range x.Path {
			if p.field >= 0 {
				t = mk(SInt, "fref", t, intLit(int64(p.field+1)))
			} else {
				t = mk(SInt, "eref", t, p.idx)
			}
		}
		f.c.assumed["interior addresses are used as object identities only (fref/eref encoding)"] = true
		return t
	case *Closure:
		if len(x.Bindings) == 0 {
			name := quote("func " + x.Fn.String())
			f.c.decl("func "+name, fmt.Sprintf("(declare-const %s Int)", name))
			f.c.decl("funcpos "+name, fmt.Sprintf("(assert (> %s 0))", name))
			return Term{name, SInt}
		}
		return f.c.fresh("closure", SInt)
	case *ssa.Builtin:
		unsup("builtin %s used as value", x.Name())
	}
	unsup("asTerm: %T", v)
	return Term{}
}

func (f *frame) sval(v Val, t types.Type) SVal {
	if a, ok := v.(*Addr); ok {
		return SVal{T: f.asTerm(a), GoT: t, A: a}
	}
	if tup, ok := v.(Tuple); ok {
		return SVal{Tup: tup, GoT: t}
	}
	if cl, ok := v.(*Closure); ok {
		return SVal{T: f.asTerm(cl), GoT: t}
	}
	return SVal{T: v.(Term), GoT: t}
}

// addrOfPtr turns a pointer value into an address.
func (f *frame) addrOfPtr(v Val, ptrType types.Type) *Addr {
	if a, ok := v.(*Addr); ok {
		return a
	}
	t := v.(Term)
	pt, ok := types.Unalias(ptrType).Underlying().(*types.Pointer)
	if !ok {
		unsup("addrOfPtr: %s is not a pointer type", ptrType)
	}
	elem := pt.Elem()
	if _, ok := structOf(elem); ok {
		return &Addr{Kind: aStruct, Base: t, Typ: elem}
	}
	if at, ok := types.Unalias(elem).Underlying().(*types.Array); ok {
		_ = at
		return &Addr{Kind: aCell, Base: t, Typ: elem}
	}
	return &Addr{Kind: aCell, Base: t, Typ: elem}
}

func (f *frame) load(h *heapState, a *Addr) Term {
	c := f.c
	var v Term
	var t types.Type
	path := a.Path
	switch a.Kind {
	case aStruct:
		st, _ := structOf(a.Typ)
		if len(path) == 0 {
			fs := make([]Term, st.NumFields())
			for i := range fs {
				fs[i] = sel(c.heapGet(h, fieldKey(a.Typ, st, i), c.fieldSort(st, i)), a.Base)
			}
			return c.structMk(a.Typ, st, fs)
		}
		i := path[0].field
		v = sel(c.heapGet(h, fieldKey(a.Typ, st, i), c.fieldSort(st, i)), a.Base)
		t = st.Field(i).Type()
		path = path[1:]
	case aElem:
		v = sel(sel(c.heapGet(h, elemKey(a.Typ), c.elemSort(a.Typ)), a.Base), a.Idx)
		t = a.Typ
	case aCell:
		if at, ok := types.Unalias(a.Typ).Underlying().(*types.Array); ok {
			v = sel(c.heapGet(h, elemKey(at.Elem()), c.elemSort(at.Elem())), a.Base)
		} else {
			v = sel(c.heapGet(h, cellKey(a.Typ), c.cellSort(a.Typ)), a.Base)
		}
		t = a.Typ
	}
	for _, p := range path {
		if p.field >= 0 {
			st, _ := structOf(t)
			v = c.structGet(t, st, p.field, v)
			t = st.Field(p.field).Type()
		} else {
			v = sel(v, p.idx)
			t = types.Unalias(t).Underlying().(*types.Array).Elem()
		}
	}
	return v
}

func (f *frame) updatePath(t types.Type, v Term, path []pstep, x Term) Term {
	if len(path) == 0 {
		return x
	}
	p := path[0]
	if p.field >= 0 {
		st, _ := structOf(t)
		inner := f.updatePath(st.Field(p.field).Type(), f.c.structGet(t, st, p.field, v), path[1:], x)
		return f.c.structSet(t, st, v, p.field, inner)
	}
	et := types.Unalias(t).Underlying().(*types.Array).Elem()
	inner := f.updatePath(et, sel(v, p.idx), path[1:], x)
	return store(v, p.idx, inner)
}

func (f *frame) storeTo(h *heapState, a *Addr, x Term) {
	c := f.c
	switch a.Kind {
	case aStruct:
		st, _ := structOf(a.Typ)
		if len(a.Path) == 0 {
			for i := 0; i < st.NumFields(); i++ {
				key := fieldKey(a.Typ, st, i)
				arr := c.heapGet(h, key, c.fieldSort(st, i))
				c.heapSetAt(h, key, store(arr, a.Base, c.structGet(a.Typ, st, i, x)), a.Base)
			}
			return
		}
		i := a.Path[0].field
		key := fieldKey(a.Typ, st, i)
		arr := c.heapGet(h, key, c.fieldSort(st, i))
		nv := f.updatePath(st.Field(i).Type(), sel(arr, a.Base), a.Path[1:], x)
		c.heapSetAt(h, key, store(arr, a.Base, nv), a.Base)
	case aElem:
		key := elemKey(a.Typ)
		arr := c.heapGet(h, key, c.elemSort(a.Typ))
		inner := sel(arr, a.Base)
		nv := f.updatePath(a.Typ, sel(inner, a.Idx), a.Path, x)
		c.heapSetAt(h, key, store(arr, a.Base, store(inner, a.Idx, nv)), a.Base)
	case aCell:
		if at, ok := types.Unalias(a.Typ).Underlying().(*types.Array); ok {
			key := elemKey(at.Elem())
			arr := c.heapGet(h, key, c.elemSort(at.Elem()))
			nv := f.updatePath(a.Typ, sel(arr, a.Base), a.Path, x)
			c.heapSetAt(h, key, store(arr, a.Base, nv), a.Base)
			return
		}
		key := cellKey(a.Typ)
		arr := c.heapGet(h, key, c.cellSort(a.Typ))
		nv := f.updatePath(a.Typ, sel(arr, a.Base), a.Path, x)
		c.heapSetAt(h, key, store(arr, a.Base, nv), a.Base)
	}
}

// alloc returns a fresh reference.
func (f *frame) alloc(hint string) Term {
	c := f.c
	n := c.nalloc(f.heap)
	n1 := c.name("nalloc", add(n, tOne))
	c.heapSet(f.heap, allocKey, n1)
	r := c.name(hint, mk(SInt, "-", n1))
	c.freshRefs[r.S] = true
	return r
}

func (f *frame) safety(kind string, in siteT, goal Term, what string) {
	if goal.IsTrue() {
		return
	}
	pos := f.pos(in.Pos())
	name := fmt.Sprintf("%s#%s:%s", shortFn(f.c.fn), kind, what)
	if !f.top {
		name = fmt.Sprintf("%s#%s:%s[in %s]", shortFn(f.c.fn), kind, what, shortFn(f.fn))
	}
	f.c.oblige(kind, name, f.guard, goal, pos, what)
	// after the check the execution continues only if it held
	f.c.assume(implies(f.guard, goal))
}

// siteT is anything with a source position (ssa instructions, deferred calls).
type siteT interface{ Pos() token.Pos }

// basesInvariant: every written object is named by a term that is meaningful before the loop.
func basesInvariant(bases map[string]Term, defined map[string]bool) bool {
	for b := range bases {
		if !symbolsDefined(b, defined) {
			return false
		}
	}
	return true
}
