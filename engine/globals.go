package main

import (
	"fmt"
	"go/token"
	"go/types"
	"strings"

	"golang.org/x/tools/go/ssa"
	"golang.org/x/tools/go/ssa/ssautil"
)

// Package-level variables that are only ever assigned by the package initialiser (sentinel errors,
// lookup tables) are constants of the program after initialisation. The engine establishes this
// mechanically: an unexported global is immutable if, in every function of its package, it is used
// only as the operand of a load — or stored to inside an init function. Loads of such a global
// yield one fixed value that survives calls which otherwise havoc the heap.

func (e *Engine) immutableGlobal(g *ssa.Global) bool {
	if e.immGlobals == nil {
		e.immGlobals = map[*ssa.Global]bool{}
		e.allFuncs = ssautil.AllFunctions(e.prog)
	}
	if v, ok := e.immGlobals[g]; ok {
		return v
	}
	ok := g.Pkg != nil && !token.IsExported(g.Name())
	if ok {
	scan:
		for fn := range e.allFuncs {
			root := fn
			for root.Parent() != nil {
				root = root.Parent()
			}
			if root.Pkg != g.Pkg {
				continue
			}
			isInit := strings.HasPrefix(root.Name(), "init")
			for _, b := range fn.Blocks {
				for _, in := range b.Instrs {
					for _, op := range in.Operands(nil) {
						if op == nil || *op != ssa.Value(g) {
							continue
						}
						switch x := in.(type) {
						case *ssa.UnOp:
							if x.Op == token.MUL {
								continue
							}
						case *ssa.Store:
							if x.Addr == ssa.Value(g) && isInit {
								continue
							}
						case *ssa.DebugRef:
							continue
						}
						ok = false
						break scan
					}
				}
			}
		}
	}
	e.immGlobals[g] = ok
	return ok
}

// globalValue: the fixed value of an immutable global.
func (c *Ctx) globalValue(g *ssa.Global, t types.Type) Term {
	name := quote("gval " + g.String())
	srt := c.sortOf(t)
	c.ensureSort(srt)
	c.decl("gval "+name, fmt.Sprintf("(declare-const %s %s)", name, srt))
	c.assumed["package-level variable "+g.String()+" is assigned by the package initialiser only (checked: every other use in its package is a read)"] = true
	return Term{name, srt}
}
