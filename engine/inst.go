package main

import (
	"regexp"
	"fmt"
	"sort"
	"strings"
)

// Instantiation-based proving (sound: every step only weakens the hypotheses or is an
// equivalence on the negated goal):
//   - the universally quantified goal is skolemised (fresh constants for its binders,
//     antecedents of implications become hypotheses);
//   - every universally quantified hypothesis  (assert [(=> G] (forall (binders) B) [)])  is
//     replaced by its instances at a set of candidate ground terms (the skolem constants,
//     their neighbours, slice lengths that occur in the goal, 0);
//   - the query is then quantifier free and decided quickly. `unsat` is a proof; any other
//     answer is discarded and the full query is tried.

// splitTop splits the arguments of an s-expression "(op a b c)" into op and args.
func splitTop(s string) (string, []string) {
	s = strings.TrimSpace(s)
	if len(s) < 2 || s[0] != '(' || s[len(s)-1] != ')' {
		return s, nil
	}
	body := s[1 : len(s)-1]
	var parts []string
	i := 0
	for i < len(body) {
		for i < len(body) && (body[i] == ' ' || body[i] == '\n') {
			i++
		}
		if i >= len(body) {
			break
		}
		j := sexpEnd(body, i)
		if j <= i {
			return s, nil // malformed: treat as an atom
		}
		parts = append(parts, body[i:j])
		i = j
	}
	if len(parts) == 0 {
		return "", nil
	}
	return parts[0], parts[1:]
}

// binders parses "((a Int) (b Int))".
func parseBinders(s string) (names, sorts []string) {
	_, _ = names, sorts
	s = strings.TrimSpace(s)
	inner := s[1 : len(s)-1]
	i := 0
	for i < len(inner) {
		for i < len(inner) && inner[i] == ' ' {
			i++
		}
		if i >= len(inner) {
			break
		}
		j := sexpEnd(inner, i)
		b := inner[i+1 : j-1]
		k := sexpEnd(b, 0)
		names = append(names, strings.TrimSpace(b[:k]))
		sorts = append(sorts, strings.TrimSpace(b[k:]))
		i = j
	}
	return
}

func stripPattern(body string) string {
	body = strings.TrimSpace(body)
	if strings.HasPrefix(body, "(! ") {
		inner := body[3 : len(body)-1]
		j := sexpEnd(inner, 0)
		return strings.TrimSpace(inner[:j])
	}
	return body
}

// quantHyp describes (assert [guards =>] (forall binders body)).
type quantHyp struct {
	guards  []string
	names   []string
	sorts   []string
	body    string
	pattern string // text of the :pattern annotation, if any
}

func parseQuantHyp(line string) (*quantHyp, bool) {
	op, args := splitTop(line)
	if op != "assert" || len(args) != 1 {
		return nil, false
	}
	q := &quantHyp{}
	cur := args[0]
	for {
		op, as := splitTop(cur)
		switch {
		case op == "=>" && len(as) == 2:
			q.guards = append(q.guards, as[0])
			cur = as[1]
			continue
		case op == "=" && len(as) == 2 && (strings.HasPrefix(strings.TrimSpace(as[1]), "(forall ") || strings.HasPrefix(strings.TrimSpace(as[0]), "(forall ")):
			// b == (forall x. P): use the direction  b => forall x. P  (weaker, hence sound)
			if strings.HasPrefix(strings.TrimSpace(as[1]), "(forall ") {
				q.guards = append(q.guards, as[0])
				cur = strings.TrimSpace(as[1])
			} else {
				q.guards = append(q.guards, as[1])
				cur = strings.TrimSpace(as[0])
			}
			continue
		case op == "forall" && len(as) == 2:
			q.names, q.sorts = parseBinders(as[0])
			q.body = stripPattern(as[1])
			if k := strings.Index(as[1], ":pattern"); k >= 0 && strings.HasPrefix(strings.TrimSpace(as[1]), "(! ") {
				q.pattern = as[1][k:]
			}
			// nested quantifiers stay quantified inside the instances (sound: an instance of a
			// universally quantified hypothesis is implied by it, whatever its body contains)
			return q, true
		}
		return nil, false
	}
}

func (q *quantHyp) instantiate(vals []string) string {
	b := q.body
	for i, n := range q.names {
		b = strings.ReplaceAll(b, n, vals[i])
	}
	for i := len(q.guards) - 1; i >= 0; i-- {
		b = "(=> " + q.guards[i] + " " + b + ")"
	}
	return "(assert " + b + ")"
}

// skolemize turns the goal into hypotheses + a quantifier-free goal.
func skolemize(goal string, counter *int) (decls, hyps []string, body string, skolems []string, ok bool) {
	cur := goal
loop:
	for {
		op, as := splitTop(cur)
		switch {
		case op == "=>" && len(as) == 2:
			hyps = append(hyps, as[0])
			cur = as[1]
			continue
		case op == "forall" && len(as) == 2:
			names, sorts := parseBinders(as[0])
			b := stripPattern(as[1])
			for i, n := range names {
				*counter++
				sk := fmt.Sprintf("|sk!%d|", *counter)
				decls = append(decls, fmt.Sprintf("(declare-const %s %s)", sk, sorts[i]))
				b = strings.ReplaceAll(b, n, sk)
				if sorts[i] == SInt {
					skolems = append(skolems, sk)
				}
			}
			cur = b
			continue
		}
		break loop
	}
	if strings.Contains(cur, "(forall ") {
		return nil, nil, "", nil, false
	}
	return decls, hyps, cur, skolems, true
}

// slenTerms finds "(slen X)" sub-terms.
func slenTerms(s string) []string {
	seen := map[string]bool{}
	var out []string
	for i := 0; i < len(s); i++ {
		if strings.HasPrefix(s[i:], "(slen ") {
			j := sexpEnd(s, i)
			t := s[i:j]
			if !seen[t] && !strings.Contains(t, "|q ") {
				seen[t] = true
				out = append(out, t)
			}
		}
	}
	return out
}

// selectIndexTerms finds the index arguments I of "(select A I)" sub-terms (ground terms of the
// skolemised goal: the places where the goal reads an array, hence where array-valued hypotheses
// such as the element-wise description of append / copy / a loop invariant have to be instantiated).
func selectIndexTerms(s string) []string {
	seen := map[string]bool{}
	var out []string
	for i := 0; i < len(s); i++ {
		if strings.HasPrefix(s[i:], "(select ") {
			j := sexpEnd(s, i)
			_, as := splitTop(s[i:j])
			if len(as) == 2 {
				t := strings.TrimSpace(as[1])
				if !seen[t] && !strings.Contains(t, "|q ") && len(t) < 1500 {
					seen[t] = true
					out = append(out, t)
				}
			}
		}
	}
	return out
}

// smtInst builds the instantiation-based query; ok=false when the obligation has no
// quantified hypothesis and no quantified goal (the light query already covers it).
func (c *Ctx) smtInst(o *Obligation) (string, bool) {
	var b strings.Builder
	b.WriteString(prelude)
	var hyps []*quantHyp
	keep := func(l string) bool {
		if strings.HasPrefix(l, "(assert") && (strings.Contains(l, "(forall ") || strings.Contains(l, "(exists ")) {
			if q, ok := parseQuantHyp(l); ok {
				hyps = append(hyps, q)
			}
			return false
		}
		return true
	}
	for _, d := range c.decls {
		if keep(d) {
			b.WriteString(d)
			b.WriteByte('\n')
		}
	}
	for _, d := range c.instAxioms {
		keep(d)
	}
	for _, l := range c.body[:o.Prefix] {
		if keep(l) {
			b.WriteString(l)
			b.WriteByte('\n')
		}
	}
	cnt := 0
	decls, ghyps, goal, skolems, ok := skolemize(o.Goal.S, &cnt)
	if !ok {
		return "", false
	}
	if len(hyps) == 0 && len(skolems) == 0 {
		return "", false
	}
	for _, d := range decls {
		b.WriteString(d + "\n")
	}
	b.WriteString("(assert " + o.Guard.S + ")\n")
	for _, h := range ghyps {
		b.WriteString("(assert " + h + ")\n")
	}
	// candidate terms
	cands := map[string]bool{"0": true}
	for _, sk := range skolems {
		cands[sk] = true
		cands["(+ "+sk+" 1)"] = true
		cands["(- "+sk+" 1)"] = true
	}
	// the loop variables of the enclosing loops (the element a nested loop works on is indexed by
	// the outer loop's counter, which may be far from the goal in the definition graph)
	for i, v := range o.CtxInts {
		if i >= 8 {
			break
		}
		cands[v] = true
		cands["(+ "+v+" 1)"] = true
	}
	for _, t := range slenTerms(goal + " " + strings.Join(ghyps, " ")) {
		cands[t] = true
		cands["(- "+t+" 1)"] = true
	}
	// integer-valued program variables (loop counters, indices) mentioned by the goal or its guard
	var allIntVars []string
	{
		intSyms := map[string]bool{}
		defBody := map[string]string{}
		var declOrder []string
		scan := func(l string) {
			if strings.HasPrefix(l, "(declare-const |") && strings.HasSuffix(l, " Int)") {
				intSyms[l[len("(declare-const "):len(l)-len(" Int)")]] = true
				declOrder = append(declOrder, l[len("(declare-const "):len(l)-len(" Int)")])
			} else if strings.HasPrefix(l, "(define-fun |") {
				if k := strings.Index(l, "| () Int "); k > 0 {
					intSyms[l[len("(define-fun "):k+1]] = true
				}
				if k := strings.Index(l, "| () "); k > 0 && len(l) < 4000 {
					defBody[l[len("(define-fun "):k+1]] = l[k+5:]
				}
			}
		}
		for _, d := range c.decls {
			scan(d)
		}
		for _, l := range c.body[:o.Prefix] {
			scan(l)
		}
		for sym := range intSyms {
			if isProgramVar(sym) {
				allIntVars = append(allIntVars, sym)
			}
		}
		sort.Strings(allIntVars)
		text := goal + " " + strings.Join(ghyps, " ") + " " + o.Guard.S
		n := 0
		_ = declOrder
		seenSym := map[string]bool{}
		frontier := symbolsIn(text)
		for depth := 0; depth < 3 && len(frontier) > 0; depth++ {
			var next []string
			for _, sym := range frontier {
				if seenSym[sym] {
					continue
				}
				seenSym[sym] = true
				if intSyms[sym] && !cands[sym] && n < 24 && !strings.HasPrefix(sym, "|sk!") && isProgramVar(sym) {
					cands[sym] = true
					cands["(+ "+sym+" 1)"] = true
					n++
				}
				if body, ok := defBody[sym]; ok {
					next = append(next, symbolsIn(body)...)
				}
			}
			frontier = next
		}
	}
	var cs []string
	for k := range cands {
		cs = append(cs, k)
	}
	sort.Strings(cs)
	var strCands []string
	{
		seenS := map[string]bool{}
		addS := func(sym string) {
			if !seenS[sym] && len(strCands) < 12 {
				seenS[sym] = true
				strCands = append(strCands, sym)
			}
		}
		for _, d := range decls {
			if strings.HasSuffix(d, " Str)") && strings.HasPrefix(d, "(declare-const |sk!") {
				addS(d[len("(declare-const "):len(d)-len(" Str)")])
			}
		}
		scanS := func(l string) {
			if strings.HasPrefix(l, "(declare-const |") && strings.HasSuffix(l, " Str)") {
				sym := l[len("(declare-const "):len(l)-len(" Str)")]
				if strings.Contains(sym, ".t") || strings.HasPrefix(sym, "|p.") {
					addS(sym)
				}
			}
		}
		for i := len(c.body[:o.Prefix]) - 1; i >= 0; i-- {
			scanS(c.body[i])
		}
		for _, d := range c.decls {
			scanS(d)
		}
	}
	// when the two-binder facts would produce too many instances, pairs of two plain program
	// variables are left out (the core terms: the goal's skolems and their neighbours, the loop
	// variables of the enclosing loops, zero)
	n2 := 0
	for _, q := range hyps {
		if len(q.names) == 2 && q.sorts[0] == SInt && q.sorts[1] == SInt && appPattern(q) == "" {
			n2++
		}
	}
	big2 := n2*len(cs)*len(cs) > 6000
	core := map[string]bool{"0": true}
	for _, sk := range skolems {
		core[sk], core["(+ "+sk+" 1)"], core["(- "+sk+" 1)"] = true, true, true
	}
	for i, v := range o.CtxInts {
		if i < 8 {
			core[v], core["(+ "+v+" 1)"] = true, true
		}
	}
	prefixText := b.String() + " " + goal + " " + o.Guard.S
	var insts []string
	for _, q := range hyps {
		if pt := appPattern(q); pt != "" {
			// an axiom with an explicit trigger that is an application of an uninterpreted function
			// (floor division facts, contracts of pure functions): instantiated where a matching
			// term occurs (binders of any sort), not at candidate tuples
			for _, binds := range matchPatternIn(pt, q.names, prefixText) {
				insts = append(insts, q.instantiate(binds))
			}
			continue
		}
		n := len(q.names)
		allInt := true
		for _, s := range q.sorts {
			if s != SInt {
				allInt = false
			}
		}
		if n == 1 && q.sorts[0] == "Str" {
			// string-keyed facts (map domains, visited sets): the goal's string skolems and the string
			// program variables
			for _, v := range strCands {
				insts = append(insts, q.instantiate([]string{v}))
			}
			continue
		}
		if n == 2 && ((q.sorts[0] == SInt && q.sorts[1] == "Str") || (q.sorts[0] == "Str" && q.sorts[1] == SInt)) {
			// one index, one string key (facts about a list of maps)
			for _, v := range cs {
				for _, w := range strCands {
					if q.sorts[0] == SInt {
						insts = append(insts, q.instantiate([]string{v, w}))
					} else {
						insts = append(insts, q.instantiate([]string{w, v}))
					}
				}
			}
			continue
		}
		if !allInt || n > 2 {
			continue
		}
		if n == 1 {
			// the goal's own skolem constants first (their witnesses are the ones the goal needs)
			for _, v := range skolems {
				insts = append([]string{q.instantiate([]string{v})}, insts...)
			}
			for _, v := range cs {
				insts = append(insts, q.instantiate([]string{v}))
			}
		} else {
			if len(skolems) == 2 {
				// the goal's own pair first (its witness is the one the goal needs)
				insts = append([]string{q.instantiate([]string{skolems[0], skolems[1]})}, insts...)
			}
			if big2 {
				// too many pairs: pairs with a skolem-derived / loop-variable / length term on at least
				// one side, and all pairs among those core terms
				for _, v := range cs {
					for _, w := range cs {
						if core[v] || core[w] {
							insts = append(insts, q.instantiate([]string{v, w}))
						}
					}
				}
			} else {
				for _, v := range cs {
					for _, w := range cs {
						insts = append(insts, q.instantiate([]string{v, w}))
					}
				}
			}
		}
	}
	// Existentials. In an instance of a hypothesis, `guards => exists x. B` is replaced by
	// `guards => B[x := w]` for a fresh constant w (existential elimination; sound). For a goal
	// `exists x. B` the negated goal `forall x. not B` is instantiated at the witnesses so obtained
	// and at the other candidate terms (only instances of the negated goal are asserted: weaker than
	// the negated goal, so `unsat` still proves the goal).
	var witnesses []string
	seenInst := map[string]bool{}
	flush := func(list []string) {
		for _, l := range list {
			if seenInst[l] {
				continue
			}
			seenInst[l] = true
			if strings.HasPrefix(l, "(assert ") && strings.Contains(l, "(exists ") {
				nl, ds, ws := skolemizeHypExists(l, &cnt)
				for _, d := range ds {
					b.WriteString(d + "\n")
				}
				witnesses = append(witnesses, ws...)
				l = nl
			}
			b.WriteString(l + "\n")
		}
	}
	flush(insts)
	// second round: the universal facts at the first witnesses (those of the instances at the goal's
	// own skolems come first) — `r[k] == blocks[w]` is only useful together with what is known about
	// blocks[w]
	if nw := len(witnesses); nw > 0 {
		if nw > 6 {
			nw = 6
		}
		var more []string
		for _, q := range hyps {
			if len(q.names) == 1 && q.sorts[0] == SInt {
				for _, w := range witnesses[:nw] {
					more = append(more, q.instantiate([]string{w}))
				}
			}
		}
		flush(more)
	}
	// the negated goal: ground instances for an existential goal
	var goalAsserts []string
	var emitLate func(w string) // a one-binder existential goal: instance of its negation at w
	if op, as := splitTop(goal); op == "exists" && len(as) == 2 {
		names, sorts := parseBinders(as[0])
		allInt := len(names) <= 2
		for _, srt := range sorts {
			if srt != SInt {
				allInt = false
			}
		}
		if allInt {
			// witness candidates: the witnesses of the hypotheses first, then skolems and program
			// variables (and their successors); kept small — the instances are squared
			wc := append([]string{}, witnesses...)
			maxW, maxC := 8, 14
			if len(names) == 1 {
				maxW, maxC = 400, 420 // one ground instance per witness: cheap
			}
			if len(wc) > maxW {
				wc = wc[:maxW]
			}
			for _, v := range cs {
				if len(wc) >= maxC {
					break
				}
				if strings.Contains(v, "|sk!") || strings.Contains(v, ".t") || strings.HasPrefix(v, "|p.") || v == "0" {
					wc = append(wc, v)
					if len(names) == 1 && !strings.HasPrefix(v, "(") && v != "0" && !strings.Contains(v, "|sk!") {
						// ranging over s[1:] visits s[i+1]: the element two past the loop counter
						wc = append(wc, "(+ "+v+" 2)")
					}
				}
			}
			if len(names) == 1 {
				// every integer program variable (loop counters are often far from the goal in the
				// definition graph), with the next two positions: one ground instance each
				have := map[string]bool{}
				for _, v := range wc {
					have[v] = true
				}
				loopVar := map[string]bool{}
				for _, v := range o.CtxInts {
					loopVar[v] = true
				}
				for _, v := range allIntVars {
					ws := []string{v, "(+ " + v + " 1)"}
					if loopVar[v] {
						ws = append(ws, "(+ "+v+" 2)") // ranging over s[1:] visits s[i+1]
					}
					for _, w := range ws {
						if !have[w] && len(wc) < 500 {
							have[w] = true
							wc = append(wc, w)
						}
					}
				}
			}
			body := stripPattern(as[1])
			emit := func(vals []string) {
				t := body
				for i, n := range names {
					t = strings.ReplaceAll(t, n, vals[i])
				}
				goalAsserts = append(goalAsserts, "(assert (not "+t+"))")
			}
			if len(names) == 1 {
				for _, v := range wc {
					emit([]string{v})
				}
				emitLate = func(w string) { emit([]string{w}) }
			} else {
				for _, v := range wc {
					for _, w := range wc {
						emit([]string{v, w})
					}
				}
			}
		}
	}
	if goalAsserts == nil {
		goalAsserts = []string{"(assert (not " + goal + "))"}
	}
	// goal-directed instantiation of element-wise array facts (ematch.go), driven by the reads of
	// the (ground) negated goal
	{
		var lines []string
		for _, d := range c.decls {
			lines = append(lines, d)
		}
		lines = append(lines, c.body[:o.Prefix]...)
		var gtb strings.Builder
		for _, g := range goalAsserts {
			if gtb.Len()+len(g) > 2000000 {
				break
			}
			gtb.WriteString(g)
			gtb.WriteByte(' ')
		}
		gt := gtb.String()
		nw := len(witnesses)
		em := ematchInstances(lines, hyps, gt+" "+strings.Join(ghyps, " ")+" "+o.Guard.S)
		flush(em)
		// positions before a sort (sort.Sort's permutation: new[k] == old[perm[k]]): the two-index
		// facts about the old contents (pairwise distinctness) at the pre-images of the goal's indices
		{
			seenP := map[string]bool{}
			var permTerms []string
			for _, l := range em {
				for i := 0; i+8 < len(l) && len(permTerms) < 6; i++ {
					if !strings.HasPrefix(l[i:], "(select |perm~sort") {
						continue
					}
					depth, end := 0, -1
					for j := i; j < len(l); j++ {
						if l[j] == '|' {
							if k := strings.IndexByte(l[j+1:], '|'); k >= 0 {
								j += k + 1
								continue
							}
						}
						if l[j] == '(' {
							depth++
						} else if l[j] == ')' {
							depth--
							if depth == 0 {
								end = j
								break
							}
						}
					}
					if end > 0 {
						if t := l[i : end+1]; !seenP[t] && !strings.Contains(t, "|q ") {
							seenP[t] = true
							permTerms = append(permTerms, t)
						}
					}
				}
			}
			if len(permTerms) > 0 {
				var more []string
				for _, q := range hyps {
					if len(q.names) == 2 && q.sorts[0] == SInt && q.sorts[1] == SInt {
						for _, a := range permTerms {
							for _, b2 := range permTerms {
								if a != b2 {
									more = append(more, q.instantiate([]string{a, b2}))
								}
							}
						}
					}
				}
				flush(more)
			}
		}
		if emitLate != nil {
			// witnesses of the goal-directed instances (a fact about p[k] fired at the element the
			// goal reads, p[lo+k]) refute the goal as well
			for _, w := range witnesses[nw:] {
				emitLate(w)
			}
		}
	}
	for _, g := range goalAsserts {
		b.WriteString(g + "\n")
	}
	b.WriteString("(check-sat)\n")
	return b.String(), true
}

// skolemizeHypExists replaces a positive existential reached through the consequents of an asserted
// implication chain by its body with fresh constants.
func skolemizeHypExists(line string, counter *int) (string, []string, []string) {
	op, args := splitTop(line)
	if op != "assert" || len(args) != 1 {
		return line, nil, nil
	}
	var guards []string
	cur := args[0]
	for {
		op, as := splitTop(cur)
		if op == "=>" && len(as) == 2 {
			guards = append(guards, as[0])
			cur = as[1]
			continue
		}
		if op == "exists" && len(as) == 2 {
			names, sorts := parseBinders(as[0])
			body := stripPattern(as[1])
			var decls, ws []string
			for i, n := range names {
				*counter++
				w := fmt.Sprintf("|wit!%d|", *counter)
				decls = append(decls, fmt.Sprintf("(declare-const %s %s)", w, sorts[i]))
				body = strings.ReplaceAll(body, n, w)
				if sorts[i] == SInt {
					ws = append(ws, w)
				}
			}
			for i := len(guards) - 1; i >= 0; i-- {
				body = "(=> " + guards[i] + " " + body + ")"
			}
			return "(assert " + body + ")", decls, ws
		}
		return line, nil, nil
	}
}

// selectIndexTermsAll is selectIndexTerms without the bound-variable filter (for hypothesis bodies).
func selectIndexTermsAll(s string) []string {
	seen := map[string]bool{}
	var out []string
	for i := 0; i < len(s); i++ {
		if strings.HasPrefix(s[i:], "(select ") {
			j := sexpEnd(s, i)
			_, as := splitTop(s[i:j])
			if len(as) == 2 {
				t := strings.TrimSpace(as[1])
				if !seen[t] {
					seen[t] = true
					out = append(out, t)
				}
			}
		}
	}
	return out
}

// isProgramVar: the symbol names an SSA value of the function (|fn.tN!k|) or a parameter (|p.x!k|)
// — as opposed to the engine's own bookkeeping constants (allocation counters, capacities, ..).
func isProgramVar(sym string) bool {
	if strings.HasPrefix(sym, "|p.") {
		return true
	}
	k := strings.LastIndex(sym, ".t")
	if k < 0 {
		return false
	}
	rest := sym[k+2:]
	j := 0
	for j < len(rest) && rest[j] >= '0' && rest[j] <= '9' {
		j++
	}
	return j > 0 && j < len(rest) && rest[j] == '!'
}

// appPattern returns the trigger term of a hypothesis whose explicit :pattern is a single
// application of an uninterpreted function other than select (e.g. (umul b (udiv n b))).
func appPattern(q *quantHyp) string {
	if q.pattern == "" {
		return ""
	}
	k := strings.Index(q.pattern, "((")
	if k < 0 {
		return ""
	}
	t := q.pattern[k+1:]
	// t starts with the first trigger term "(f ...)"
	depth, end := 0, -1
	for i := 0; i < len(t); i++ {
		if t[i] == '|' {
			if j := strings.IndexByte(t[i+1:], '|'); j >= 0 {
				i += j + 1
				continue
			}
		}
		if t[i] == '(' {
			depth++
		} else if t[i] == ')' {
			depth--
			if depth == 0 {
				end = i
				break
			}
		}
	}
	if end < 0 {
		return ""
	}
	t = t[:end+1]
	if strings.HasPrefix(t, "(select ") {
		return ""
	}
	return t
}

// matchPatternIn finds the sub-terms of text that match the pattern (binder names are pattern
// variables) and returns the bindings, in binder order.
func matchPatternIn(pat string, names []string, text string) [][]string {
	op, _ := splitTop(pat)
	if op == "" {
		return nil
	}
	// named terms (0-ary define-funs) are looked through when an application is expected
	defs := map[string]string{}
	for _, l := range strings.Split(text, "\n") {
		if strings.HasPrefix(l, "(define-fun |") {
			if k := strings.Index(l, "| () Int "); k > 0 && strings.HasSuffix(l, ")") {
				defs[l[len("(define-fun "):k+1]] = l[k+len("| () Int ") : len(l)-1]
			}
		}
	}
	head := "(" + op + " "
	isVar := map[string]int{}
	for i, n := range names {
		isVar[n] = i
	}
	var match func(p, t string, b []string) bool
	match = func(p, t string, b []string) bool {
		p, t = strings.TrimSpace(p), strings.TrimSpace(t)
		if i, ok := isVar[p]; ok {
			if b[i] == "" {
				b[i] = t
				return true
			}
			return b[i] == t
		}
		if !strings.HasPrefix(p, "(") {
			return p == t
		}
		if !strings.HasPrefix(t, "(") {
			if body, ok := defs[t]; ok {
				t = strings.TrimSpace(body)
			}
		}
		po, pa := splitTop(p)
		to, ta := splitTop(t)
		if po != to || len(pa) != len(ta) {
			return false
		}
		for i := range pa {
			if !match(pa[i], ta[i], b) {
				return false
			}
		}
		return true
	}
	seen := map[string]bool{}
	var out [][]string
	for i := 0; i+len(head) < len(text) && len(out) < 40; i++ {
		if !strings.HasPrefix(text[i:], head) {
			continue
		}
		depth, end := 0, -1
		for j := i; j < len(text); j++ {
			if text[j] == '|' {
				if k := strings.IndexByte(text[j+1:], '|'); k >= 0 {
					j += k + 1
					continue
				}
			}
			if text[j] == '(' {
				depth++
			} else if text[j] == ')' {
				depth--
				if depth == 0 {
					end = j
					break
				}
			}
		}
		if end < 0 {
			continue
		}
		b := make([]string, len(names))
		if match(pat, text[i:end+1], b) {
			ok := true
			for _, v := range b {
				if v == "" || strings.Contains(v, "|q ") {
					ok = false
				}
			}
			key := strings.Join(b, "\x00")
			if ok && !seen[key] {
				seen[key] = true
				out = append(out, b)
			}
		}
	}
	return out
}

var boundVarNum = regexp.MustCompile(`\|q ([^|]*?) [0-9]+\|`)

func normBound(t string) string { return boundVarNum.ReplaceAllString(t, "|q $1|") }

// smtIdent: the goal is, up to the numbering of bound variables, one of the quantified
// hypotheses (an invariant carried over unchanged, a callee's postcondition restated). Then it is
// enough that the hypothesis' guards follow from the goal's guard — a small quantifier-free query
// (the non-quantified prefix, the guard, the negated guards of the hypothesis).
func (c *Ctx) smtIdent(o *Obligation) (string, bool) {
	goal := strings.TrimSpace(o.Goal.S)
	if !strings.HasPrefix(goal, "(forall ") {
		return "", false
	}
	_, gas := splitTop(goal)
	if len(gas) != 2 {
		return "", false
	}
	gb := normBound(strings.TrimSpace(gas[0]) + " " + strings.TrimSpace(stripPattern(gas[1])))
	var guards []string
	found := false
	check := func(l string) {
		if found || !strings.HasPrefix(l, "(assert") || !strings.Contains(l, "(forall ") {
			return
		}
		q, ok := parseQuantHyp(l)
		if !ok {
			return
		}
		var bs []string
		for i, n := range q.names {
			bs = append(bs, "("+n+" "+q.sorts[i]+")")
		}
		hb := normBound("(" + strings.Join(bs, " ") + ") " + strings.TrimSpace(q.body))
		if hb == gb {
			found = true
			guards = q.guards
		}
	}
	for _, d := range c.decls {
		check(d)
	}
	for _, l := range c.body[:o.Prefix] {
		check(l)
	}
	if !found {
		return "", false
	}
	var b strings.Builder
	b.WriteString(prelude)
	nq := func(l string) bool {
		return !(strings.HasPrefix(l, "(assert") && (strings.Contains(l, "(forall ") || strings.Contains(l, "(exists ")))
	}
	for _, d := range c.decls {
		if nq(d) {
			b.WriteString(d + "\n")
		}
	}
	for _, l := range c.body[:o.Prefix] {
		if nq(l) {
			b.WriteString(l + "\n")
		}
	}
	b.WriteString("(assert " + o.Guard.S + ")\n")
	if len(guards) == 0 {
		b.WriteString("(assert false)\n")
	} else {
		b.WriteString("(assert (not (and " + strings.Join(guards, " ") + ")))\n")
	}
	b.WriteString("(check-sat)\n")
	return b.String(), true
}
