package main

import (
	"fmt"
	"go/token"
	"go/types"
	"sort"
	"strings"

	"golang.org/x/tools/go/ssa"
)

func (f *frame) srcLine(p token.Pos) string {
	pos := f.pos(p)
	if !pos.IsValid() {
		return "?"
	}
	lines := f.c.eng.fileLines(pos.Filename)
	if pos.Line-1 < len(lines) {
		s := strings.Join(strings.Fields(lines[pos.Line-1]), " ")
		if len(s) > 70 {
			s = s[:70]
		}
		return s
	}
	return "?"
}

func (f *frame) execInstr(in ssa.Instruction) {
	c := f.c
	switch x := in.(type) {
	case *ssa.DebugRef:
		return
	case *ssa.Alloc:
		r := f.alloc(f.vname(x))
		elem := x.Type().(*types.Pointer).Elem()
		a := f.addrOfPtr(r, x.Type())
		f.storeTo(f.heap, a, c.zeroOf(elem))
		f.vals[x] = r
	case *ssa.BinOp:
		a, b := f.get(x.X), f.get(x.Y)
		if x.Op == token.EQL || x.Op == token.NEQ {
			ta, tb := f.asTerm(a), f.asTerm(b)
			r := f.equalVals(ta, tb, x.X.Type())
			if x.Op == token.NEQ {
				r = not(r)
			}
			f.vals[x] = c.name(f.vname(x), r)
			return
		}
		f.vals[x] = c.name(f.vname(x), f.binopSafe(x, f.asTerm(a), f.asTerm(b)))
	case *ssa.UnOp:
		f.execUnOp(x)
	case *ssa.Call:
		res := f.call(x, &x.Call)
		f.vals[x] = res
	case *ssa.ChangeInterface:
		f.vals[x] = f.get(x.X)
		if dt, ok := f.dynType[x.X]; ok {
			f.dynType[x] = dt
		}
	case *ssa.ChangeType:
		f.vals[x] = f.get(x.X)
	case *ssa.Convert:
		f.vals[x] = c.name(f.vname(x), f.convert(f.term(x.X), x.X.Type(), x.Type()))
	case *ssa.MultiConvert:
		f.vals[x] = c.name(f.vname(x), f.convert(f.term(x.X), x.X.Type(), x.Type()))
	case *ssa.Extract:
		tup, ok := f.get(x.Tuple).(Tuple)
		if !ok {
			unsup("extract from non-tuple")
		}
		f.vals[x] = tup[x.Index]
		if ta, ok := x.Tuple.(*ssa.TypeAssert); ok && x.Index == 0 {
			if !types.IsInterface(ta.AssertedType) {
				f.dynType[x] = ta.AssertedType
			}
		}
	case *ssa.Field:
		v := f.term(x.X)
		st, _ := structOf(x.X.Type())
		f.vals[x] = c.structGet(x.X.Type(), st, x.Field, v)
	case *ssa.FieldAddr:
		base := f.get(x.X)
		var a *Addr
		if ad, ok := base.(*Addr); ok {
			a = ad
		} else {
			a = f.addrOfPtr(base, x.X.Type())
			f.nilCheck(in, base.(Term))
		}
		st, _ := structOf(a.target())
		_ = st
		f.vals[x] = a.with(pstep{field: x.Field})
	case *ssa.Index:
		v := f.term(x.X)
		i := f.term(x.Index)
		switch t := types.Unalias(x.X.Type()).Underlying().(type) {
		case *types.Array:
			f.safety("bounds", in, and(le(tZero, i), lt(i, intLit(t.Len()))), f.srcLine(in.Pos()))
			f.vals[x] = sel(v, i)
		case *types.Basic: // string
			f.safety("bounds", in, and(le(tZero, i), lt(i, mk(SInt, "strlen", v))), f.srcLine(in.Pos()))
			r := mk(SInt, "strat", v, i)
			c.assume(and(le(tZero, r), le(r, intLit(255))))
			f.vals[x] = r
		default:
			unsup("Index on %s", x.X.Type())
		}
	case *ssa.IndexAddr:
		i := f.term(x.Index)
		base := f.get(x.X)
		switch t := types.Unalias(x.X.Type()).Underlying().(type) {
		case *types.Slice:
			s := base.(Term)
			f.safety("bounds", in, and(le(tZero, i), lt(i, sLen(s))), f.srcLine(in.Pos()))
			f.vals[x] = &Addr{Kind: aElem, Base: sBase(s), Idx: c.name("idx", add(sOff(s), i)), Typ: t.Elem()}
		case *types.Pointer: // pointer to array
			at := types.Unalias(t.Elem()).Underlying().(*types.Array)
			f.safety("bounds", in, and(le(tZero, i), lt(i, intLit(at.Len()))), f.srcLine(in.Pos()))
			if ad, ok := base.(*Addr); ok {
				f.vals[x] = ad.with(pstep{field: -1, idx: i})
			} else {
				f.vals[x] = &Addr{Kind: aElem, Base: base.(Term), Idx: i, Typ: at.Elem()}
			}
		default:
			unsup("IndexAddr on %s", x.X.Type())
		}
	case *ssa.Lookup:
		f.execLookup(x)
	case *ssa.MakeChan:
		r := f.alloc(f.vname(x))
		f.vals[x] = r
		if f.chanModel() {
			buf, capa := f.chanArrays()
			f.c.heapSet(f.heap, "G cbuf", store(buf, r, tZero))
			f.c.heapSet(f.heap, "G ccap", store(capa, r, f.asTerm(f.get(x.Size))))
		}
	case *ssa.MakeClosure:
		cl := &Closure{Fn: x.Fn.(*ssa.Function)}
		for _, b := range x.Bindings {
			cl.Bindings = append(cl.Bindings, f.get(b))
		}
		f.vals[x] = cl
	case *ssa.MakeInterface:
		f.vals[x] = f.makeInterface(f.get(x.X), x.X.Type())
		f.dynType[x] = x.X.Type()
	case *ssa.MakeMap:
		r := f.alloc(f.vname(x))
		mt := types.Unalias(x.Type()).Underlying().(*types.Map)
		dk, _, lk := mapKeys(x.Type())
		ds := arraySort(c.sortOf(mt.Key()), SBool)
		dom := c.heapGet(f.heap, dk, arraySort(SInt, ds))
		c.heapSet(f.heap, dk, store(dom, r, Term{fmt.Sprintf("((as const %s) false)", ds), ds}))
		ln := c.heapGet(f.heap, lk, arraySort(SInt, SInt))
		c.heapSet(f.heap, lk, store(ln, r, tZero))
		f.vals[x] = r
	case *ssa.MakeSlice:
		ln := f.term(x.Len)
		cp := f.term(x.Cap)
		f.safety("makeslice", in, and(le(tZero, ln), le(ln, cp)), f.srcLine(in.Pos()))
		r := f.alloc(f.vname(x))
		et := types.Unalias(x.Type()).Underlying().(*types.Slice).Elem()
		key := elemKey(et)
		arr := c.heapGet(f.heap, key, c.elemSort(et))
		es := arraySort(SInt, c.sortOf(et))
		c.heapSet(f.heap, key, store(arr, r, Term{fmt.Sprintf("((as const %s) %s)", es, c.zeroOf(et).S), es}))
		f.vals[x] = c.name(f.vname(x), mkSlice(r, tZero, ln, cp))
	case *ssa.MapUpdate:
		f.execMapUpdate(x)
	case *ssa.Next:
		f.execNext(x)
	case *ssa.Range:
		_, isStr := types.Unalias(x.X.Type()).Underlying().(*types.Basic)
		f.vals[x] = &MapIter{Map: f.get(x.X), MapType: x.X.Type(), IsStr: isStr}
		if mt, ok := types.Unalias(x.X.Type()).Underlying().(*types.Map); ok && !isStr {
			// ghost: the set of keys this iteration has produced so far (empty at the start)
			ks := arraySort(f.c.sortOf(mt.Key()), SBool)
			f.c.heapSet(f.heap, "G iter "+x.Name(), Term{fmt.Sprintf("((as const %s) false)", ks), ks})
		}
	case *ssa.Slice:
		f.execSlice(x)
	case *ssa.Store:
		a := f.addrOfPtr(f.get(x.Addr), x.Addr.Type())
		if t, ok := f.get(x.Addr).(Term); ok {
			f.nilCheck(in, t)
		}
		f.storeTo(f.heap, a, f.term(x.Val))
	case *ssa.TypeAssert:
		f.execTypeAssert(x)
	case *ssa.If:
		cond := f.term(x.Cond)
		f.setEdge(f.cur, 0, and(f.guard, cond))
		f.setEdge(f.cur, 1, and(f.guard, not(cond)))
	case *ssa.Jump:
		f.setEdge(f.cur, 0, f.guard)
	case *ssa.Return:
		vals := make([]Val, len(x.Results))
		dyn := make([]types.Type, len(x.Results))
		for i, r := range x.Results {
			vals[i] = f.get(r)
			dyn[i] = f.dynType[r]
		}
		f.rets = append(f.rets, retRec{cond: f.guard, vals: vals, heap: f.heap.clone(), pos: x.Pos(), blk: f.cur, dyn: dyn})
	case *ssa.Panic:
		if f.c.eng.allowPanic(f.c.fn, f.contract) {
			f.panics = append(f.panics, f.guard)
		} else {
			pos := f.pos(x.Pos())
			c.oblige("panic", fmt.Sprintf("%s#panic:%s", shortFn(c.fn), f.srcLine(x.Pos())), f.guard, tFalse, pos, "explicit panic must be unreachable")
		}
		f.guard = tFalse
	case *ssa.RunDefers:
		f.runDefers()
	case *ssa.Defer:
		args := make([]Val, len(x.Call.Args))
		for i, a := range x.Call.Args {
			args[i] = f.get(a)
		}
		var fv Val
		if !x.Call.IsInvoke() {
			fv = f.get(x.Call.Value)
		} else {
			fv = f.get(x.Call.Value)
		}
		if f.loopOf(f.cur) != nil {
			unsup("defer inside a loop")
		}
		f.defers = append(f.defers, deferRec{call: &x.Call, args: args, fnVal: fv, guard: f.guard, pos: x.Pos()})
	case *ssa.Go:
		f.execGo(x)
	case *ssa.Send:
		f.execSend(x)
	case *ssa.Select:
		f.execSelect(x)
	case *ssa.SliceToArrayPointer:
		unsup("SliceToArrayPointer")
	default:
		unsup("instruction %T", in)
	}
}

func (f *frame) loopOf(b *ssa.BasicBlock) *loopInfo {
	for _, li := range f.loops {
		if li.blocks[b] {
			return li
		}
	}
	return nil
}


func (f *frame) nilCheck(in siteT, p Term) {
	if f.c.eng.nilChecks(f.c.fn, f.contract) {
		f.safety("nil", in, not(eq(p, tNil)), f.srcLine(in.Pos()))
	} else {
		f.c.assumed["pointer dereferences are assumed non-nil (no nil-dereference obligations generated)"] = true
		f.c.assume(implies(f.guard, not(eq(p, tNil))))
	}
}

func (f *frame) equalVals(a, b Term, t types.Type) Term {
	if _, ok := types.Unalias(t).Underlying().(*types.Slice); ok {
		// only comparison with nil is legal
		if a.S == nilSlice.S {
			return eq(sBase(b), tZero)
		}
		if b.S == nilSlice.S {
			return eq(sBase(a), tZero)
		}
	}
	return eq(a, b)
}

// abstractNonlinear: the function under verification asked for `opt nonlinear=abstract`.
func (f *frame) abstractNonlinear() bool {
	rf := f.c.rootFrame
	return rf != nil && rf.contract != nil && rf.contract.Opts["nonlinear"] == "abstract"
}

func isIntLit(s string) bool {
	s = strings.TrimSuffix(strings.TrimPrefix(s, "(- "), ")")
	if s == "" {
		return false
	}
	for _, ch := range s {
		if ch < '0' || ch > '9' {
			return false
		}
	}
	return true
}

func (f *frame) binopSafe(x *ssa.BinOp, a, b Term) Term {
	if x.Op == token.QUO || x.Op == token.REM {
		if _, ok := basicInt(x.Type()); ok {
			f.safety("div", x, not(eq(b, tZero)), f.srcLine(x.Pos()))
		}
	}
	return f.binop(x.Op, a, b, x.X.Type(), x.Type(), x.Pos(), false)
}

func (f *frame) binop(op token.Token, a, b Term, opType, resType types.Type, pos token.Pos, pure bool) Term {
	c := f.c
	ub := types.Unalias(opType).Underlying()
	if bt, ok := ub.(*types.Basic); ok {
		switch {
		case bt.Info()&types.IsInteger != 0:
			w := func(t Term, full bool) Term { return mk(SInt, wrapName(bt, full), t) }
			if (op == token.MUL || op == token.QUO || op == token.REM) && f.abstractNonlinear() && !isIntLit(b.S) && (op != token.MUL || !isIntLit(a.S)) {
				// `opt nonlinear=abstract`: the product / quotient of two symbolic operands is an
				// uninterpreted function of them (sound: only arithmetic facts are lost); keeps the
				// queries of the function linear
				name := map[token.Token]string{token.MUL: "umul", token.QUO: "udiv", token.REM: "umod"}[op]
				r := mk(SInt, name, a, b)
				if op == token.MUL {
					r = w(r, true) // a product may wrap; an (uninterpreted) quotient or remainder is taken as it is
				}
				c.assumed["products and quotients of two symbolic operands are uninterpreted in functions marked `opt nonlinear=abstract` (abstraction: facts are lost, none invented), except for the floor-division facts b*(n/b) <= n < b*(n/b)+b (n >= 0), n <= b*(n/b) < n+b (n < 0) and n == b*(n/b) + n%b with the sign of n%b following n, for b > 0 (true of Go's truncated division)"] = true
				c.decl("nonlinear axiom 1", `(assert (forall ((|q n ax| Int) (|q b ax| Int)) (! (=> (and (> |q b ax| 0) (>= |q n ax| 0)) (and (<= (umul |q b ax| (udiv |q n ax| |q b ax|)) |q n ax|) (< |q n ax| (+ (umul |q b ax| (udiv |q n ax| |q b ax|)) |q b ax|)))) :pattern ((umul |q b ax| (udiv |q n ax| |q b ax|))))))`)
				c.decl("nonlinear axiom 2", `(assert (forall ((|q n ax| Int) (|q b ax| Int)) (! (=> (and (> |q b ax| 0) (< |q n ax| 0)) (and (<= |q n ax| (umul |q b ax| (udiv |q n ax| |q b ax|))) (< (umul |q b ax| (udiv |q n ax| |q b ax|)) (+ |q n ax| |q b ax|)))) :pattern ((umul |q b ax| (udiv |q n ax| |q b ax|))))))`)
				c.decl("nonlinear axiom 3", `(assert (forall ((|q n ax| Int) (|q b ax| Int)) (! (=> (> |q b ax| 0) (and (= |q n ax| (+ (umul |q b ax| (udiv |q n ax| |q b ax|)) (umod |q n ax| |q b ax|))) (=> (>= |q n ax| 0) (and (<= 0 (umod |q n ax| |q b ax|)) (< (umod |q n ax| |q b ax|) |q b ax|))) (=> (< |q n ax| 0) (and (< (- |q b ax|) (umod |q n ax| |q b ax|)) (<= (umod |q n ax| |q b ax|) 0))))) :pattern ((umod |q n ax| |q b ax|)))))`)
				return r
			}
			switch op {
			case token.ADD:
				return w(add(a, b), false)
			case token.SUB:
				return w(sub(a, b), false)
			case token.MUL:
				return w(mul(a, b), true)
			case token.QUO:
				return w(mk(SInt, "tdiv", a, b), false)
			case token.REM:
				return mk(SInt, "tmod", a, b)
			case token.LSS:
				return lt(a, b)
			case token.LEQ:
				return le(a, b)
			case token.GTR:
				return gt(a, b)
			case token.GEQ:
				return ge(a, b)
			case token.SHL, token.SHR, token.AND, token.OR, token.XOR, token.AND_NOT:
				return f.bitop(op, a, b, bt)
			}
		case bt.Info()&types.IsFloat != 0:
			c.assumed["float64 arithmetic is modelled over the reals (no rounding, NaN, Inf)"] = true
			switch op {
			case token.ADD:
				return mk(SReal, "+", a, b)
			case token.SUB:
				return mk(SReal, "-", a, b)
			case token.MUL:
				return mk(SReal, "*", a, b)
			case token.QUO:
				return mk(SReal, "/", a, b)
			case token.LSS:
				return lt(a, b)
			case token.LEQ:
				return le(a, b)
			case token.GTR:
				return gt(a, b)
			case token.GEQ:
				return ge(a, b)
			}
		case bt.Info()&types.IsString != 0:
			switch op {
			case token.ADD:
				r := mk(SStr, "strcat", a, b)
				c.assume(eq(mk(SInt, "strlen", r), add(mk(SInt, "strlen", a), mk(SInt, "strlen", b))))
				return r
			case token.LSS:
				return mk(SBool, "strlt", a, b)
			case token.GTR:
				return mk(SBool, "strlt", b, a)
			case token.LEQ:
				return not(mk(SBool, "strlt", b, a))
			case token.GEQ:
				return not(mk(SBool, "strlt", a, b))
			}
		case bt.Info()&types.IsBoolean != 0:
			switch op {
			case token.LAND, token.AND:
				return and(a, b)
			case token.LOR, token.OR:
				return or(a, b)
			}
		}
	}
	unsup("binop %s on %s", op, opType)
	return Term{}
}

func (f *frame) bitop(op token.Token, a, b Term, bt *types.Basic) Term {
	c := f.c
	_, hi, bits, signed := intRange(bt)
	_ = hi
	// constant shift amounts become multiplications / divisions
	if op == token.SHL || op == token.SHR {
		if n, ok := smallConst(b); ok && n < 64 {
			p := intLit(1 << uint(n))
			if n == 63 {
				p = Term{"9223372036854775808", SInt}
			}
			if op == token.SHL {
				return mk(SInt, wrapName(bt, true), mul(a, p))
			}
			// arithmetic shift right = floor division
			return mk(SInt, "div", a, p)
		}
	}
	if op == token.AND {
		// x & (2^k - 1) on non-negative values = x mod 2^k
		if n, ok := smallConst(b); ok && n >= 0 && (n+1)&n == 0 {
			if !signed {
				return mk(SInt, "mod", a, intLit(n+1))
			}
		}
	}
	// uninterpreted with range facts
	name := fmt.Sprintf("bit_%s_%d", map[token.Token]string{token.SHL: "shl", token.SHR: "shr", token.AND: "and", token.OR: "or", token.XOR: "xor", token.AND_NOT: "andnot"}[op], bits)
	if !signed {
		name += "u"
	}
	c.decl("fun "+name, fmt.Sprintf("(declare-fun %s (Int Int) Int)", name))
	r := mk(SInt, name, a, b)
	c.assume(c.typeInv(r, bt, tZero, 0))
	if !signed && (op == token.AND) {
		c.assume(and(le(r, a), le(r, b)))
	}
	if !signed && op == token.SHR {
		c.assume(le(r, a))
	}
	c.assumed["bit operations with non-constant operands are uninterpreted (range facts only)"] = true
	return r
}

func smallConst(t Term) (int64, bool) {
	var n int64
	if _, err := fmt.Sscanf(t.S, "%d", &n); err == nil && fmt.Sprint(n) == t.S {
		return n, true
	}
	return 0, false
}

func (f *frame) convert(v Term, from, to types.Type) Term {
	c := f.c
	fb, fok := types.Unalias(from).Underlying().(*types.Basic)
	tb, tok := types.Unalias(to).Underlying().(*types.Basic)
	if fok && tok {
		switch {
		case fb.Info()&types.IsInteger != 0 && tb.Info()&types.IsInteger != 0:
			flo, fhi, _, _ := intRange(fb)
			tlo, thi, _, _ := intRange(tb)
			if flo.Cmp(tlo) >= 0 && fhi.Cmp(thi) <= 0 {
				return v
			}
			return mk(SInt, wrapName(tb, true), v)
		case fb.Info()&types.IsInteger != 0 && tb.Info()&types.IsFloat != 0:
			c.assumed["int→float64 conversion is exact (no rounding above 2^53)"] = true
			return mk(SReal, "to_real", v)
		case fb.Info()&types.IsFloat != 0 && tb.Info()&types.IsInteger != 0:
			// truncation toward zero; out-of-range is implementation defined: unconstrained
			r := c.fresh("f2i", SInt)
			c.assume(c.typeInv(r, to, tZero, 0))
			tr := ite(ge(v, Term{"0.0", SReal}), mk(SInt, "to_int", v), mk(SInt, "-", mk(SInt, "to_int", mk(SReal, "-", v))))
			lo, hi, _, _ := intRange(tb)
			c.assume(implies(and(le(bigLit(lo), tr), le(tr, bigLit(hi))), eq(r, tr)))
			return r
		case fb.Info()&types.IsFloat != 0 && tb.Info()&types.IsFloat != 0:
			return v
		case fb.Info()&types.IsString != 0 && tb.Info()&types.IsString != 0:
			return v
		case fb.Info()&types.IsInteger != 0 && tb.Info()&types.IsString != 0:
			return c.fresh("i2s", SStr)
		case fb.Kind() == types.UnsafePointer || tb.Kind() == types.UnsafePointer:
			return v
		}
	}
	fs, ts := c.sortOf(from), c.sortOf(to)
	if fs == SStr && ts == SSlice || fs == SSlice && ts == SStr {
		// string <-> []byte / []rune: contents related by an uninterpreted bijection
		fn := "str2bytes"
		if fs == SSlice {
			fn = "bytes2str"
			c.decl("fun bytes2str", "(declare-fun bytes2str ((Array Int Int) Int Int) Str)")
			et := types.Unalias(from).Underlying().(*types.Slice).Elem()
			arr := sel(c.heapGet(f.heap, elemKey(et), c.elemSort(et)), sBase(v))
			r := mk(SStr, fn, arr, sOff(v), sLen(v))
			if b, ok := basicInt(et); ok && b.Kind() == types.Uint8 {
				c.assume(eq(mk(SInt, "strlen", r), sLen(v)))
			}
			return r
		}
		r := f.alloc("bytes")
		ln := c.fresh("byteslen", SInt)
		et := types.Unalias(to).Underlying().(*types.Slice).Elem()
		if b, ok := basicInt(et); ok && b.Kind() == types.Uint8 {
			c.assume(eq(ln, mk(SInt, "strlen", v)))
		} else {
			c.assume(and(le(tZero, ln), le(ln, mk(SInt, "strlen", v))))
		}
		// contents: havoc the fresh backing array (unconstrained)
		key := elemKey(et)
		arr := c.heapGet(f.heap, key, c.elemSort(et))
		c.heapSet(f.heap, key, store(arr, r, c.fresh("bytesdata", arraySort(SInt, c.sortOf(et)))))
		return mkSlice(r, tZero, ln, ln)
	}
	if fs == ts {
		return v
	}
	unsup("convert %s -> %s", from, to)
	return Term{}
}

func (f *frame) execUnOp(x *ssa.UnOp) {
	c := f.c
	switch x.Op {
	case token.MUL: // load
		if g, isGlobal := x.X.(*ssa.Global); isGlobal && c.eng.immutableGlobal(g) {
			v := c.globalValue(g, x.Type())
			c.assume(c.typeInv(v, x.Type(), c.nalloc(f.entry), 0))
			f.vals[x] = v
			return
		}
		pv := f.get(x.X)
		a := f.addrOfPtr(pv, x.X.Type())
		if t, ok := pv.(Term); ok {
			f.nilCheck(x, t)
		}
		lv := f.load(f.heap, a)
		v := c.name(f.vname(x), lv)
		wm := c.nalloc(f.heap)
		if readsEntryVersion(lv.S) && f.entry != nil {
			// a value read from the heap as it was at function entry (the location has not been
			// written since) refers to objects that existed at entry — not to anything allocated later
			wm = c.nalloc(f.entry)
		}
		c.assume(implies(f.guard, c.typeInv(v, x.Type(), wm, 0)))
		f.vals[x] = v
	case token.NOT:
		f.vals[x] = not(f.term(x.X))
	case token.SUB:
		v := f.term(x.X)
		if b, ok := basicInt(x.Type()); ok {
			f.vals[x] = mk(SInt, wrapName(b, false), mk(SInt, "-", v))
		} else {
			f.vals[x] = mk(SReal, "-", v)
		}
	case token.XOR:
		v := f.term(x.X)
		b, _ := basicInt(x.Type())
		_, _, _, signed := intRange(b)
		if signed {
			f.vals[x] = sub(mk(SInt, "-", v), tOne)
		} else {
			_, hi, _, _ := intRange(b)
			f.vals[x] = sub(bigLit(hi), v)
		}
	case token.ARROW:
		f.execRecv(x)
	default:
		unsup("unop %s", x.Op)
	}
}

func (f *frame) makeInterface(v Val, t types.Type) Term {
	c := f.c
	tid := c.typeID(t)
	switch types.Unalias(t).Underlying().(type) {
	case *types.Pointer, *types.Map, *types.Chan, *types.Signature:
		r := f.asTerm(v)
		c.assume(implies(and(f.guard, not(eq(r, tNil))), eq(mk(SInt, "typeof", r), tid)))
		c.assumed["a nil pointer stored in an interface is identified with the nil interface"] = true
		return r
	case *types.Interface:
		return f.asTerm(v)
	}
	// boxed value: injective constructor per type
	s := c.sortOf(t)
	box := quote("box " + typeKey(t))
	unbox := quote("unbox " + typeKey(t))
	c.decl("box "+box, fmt.Sprintf("(declare-fun %s (%s) Int)", box, s))
	c.decl("unbox "+unbox, fmt.Sprintf("(declare-fun %s (Int) %s)", unbox, s))
	vt := f.asTerm(v)
	r := c.name("box", mk(SInt, box, vt))
	c.assume(and(eq(mk(s, unbox, r), vt), eq(mk(SInt, "typeof", r), tid), not(eq(r, tNil))))
	return r
}

func (f *frame) execTypeAssert(x *ssa.TypeAssert) {
	c := f.c
	v := f.term(x.X)
	var ok Term
	var val Term
	if types.IsInterface(x.AssertedType) {
		pred := quote("implements " + typeKey(x.AssertedType))
		c.decl("impl "+pred, fmt.Sprintf("(declare-fun %s (Int) Bool)", pred))
		ok = and(not(eq(v, tNil)), mk(SBool, pred, mk(SInt, "typeof", v)))
		if ai, isI := types.Unalias(x.AssertedType).Underlying().(*types.Interface); isI && types.Implements(x.X.Type(), ai) {
			// the static type already implements the asserted interface: only nil-ness is checked
			ok = not(eq(v, tNil))
		}
		if dt, known := f.dynType[x.X]; known {
			if types.Implements(dt, types.Unalias(x.AssertedType).Underlying().(*types.Interface)) {
				ok = not(eq(v, tNil))
			} else {
				ok = tFalse
			}
			f.dynType[x] = dt
		}
		val = v
	} else {
		ok = and(not(eq(v, tNil)), eq(mk(SInt, "typeof", v), c.typeID(x.AssertedType)))
		switch types.Unalias(x.AssertedType).Underlying().(type) {
		case *types.Pointer, *types.Map, *types.Chan, *types.Signature:
			val = v
		default:
			s := c.sortOf(x.AssertedType)
			unbox := quote("unbox " + typeKey(x.AssertedType))
			c.decl("unbox "+unbox, fmt.Sprintf("(declare-fun %s (Int) %s)", unbox, s))
			val = mk(s, unbox, v)
		}
		if !x.CommaOk {
			f.dynType[x] = x.AssertedType
		}
	}
	ok = c.name(f.vname(x)+".ok", ok)
	if x.CommaOk {
		zero := c.zeroOf(x.AssertedType)
		f.vals[x] = Tuple{ite(ok, val, zero), ok}
		return
	}
	f.safety("typeassert", x, ok, f.srcLine(x.Pos()))
	f.vals[x] = val
}

func (f *frame) execSlice(x *ssa.Slice) {
	c := f.c
	base := f.get(x.X)
	var lo, hi, mx Term
	has := func(v ssa.Value) bool { return v != nil }
	switch t := types.Unalias(x.X.Type()).Underlying().(type) {
	case *types.Slice:
		s := base.(Term)
		lo = tZero
		if has(x.Low) {
			lo = f.term(x.Low)
		}
		hi = sLen(s)
		if has(x.High) {
			hi = f.term(x.High)
		}
		mx = sCap(s)
		if has(x.Max) {
			mx = f.term(x.Max)
		}
		f.safety("slice", x, and(le(tZero, lo), le(lo, hi), le(hi, mx), le(mx, sCap(s))), f.srcLine(x.Pos()))
		r := mkSlice(sBase(s), add(sOff(s), lo), sub(hi, lo), sub(mx, lo))
		f.vals[x] = c.name(f.vname(x), r)
	case *types.Basic: // string
		s := base.(Term)
		lo = tZero
		if has(x.Low) {
			lo = f.term(x.Low)
		}
		hi = mk(SInt, "strlen", s)
		if has(x.High) {
			hi = f.term(x.High)
		}
		f.safety("slice", x, and(le(tZero, lo), le(lo, hi), le(hi, mk(SInt, "strlen", s))), f.srcLine(x.Pos()))
		r := c.name(f.vname(x), mk(SStr, "strsub", s, lo, hi))
		c.assume(eq(mk(SInt, "strlen", r), sub(hi, lo)))
		f.vals[x] = r
	case *types.Pointer: // *[N]T
		at := types.Unalias(t.Elem()).Underlying().(*types.Array)
		n := intLit(at.Len())
		lo = tZero
		if has(x.Low) {
			lo = f.term(x.Low)
		}
		hi = n
		if has(x.High) {
			hi = f.term(x.High)
		}
		mx = n
		if has(x.Max) {
			mx = f.term(x.Max)
		}
		f.safety("slice", x, and(le(tZero, lo), le(lo, hi), le(hi, mx), le(mx, n)), f.srcLine(x.Pos()))
		b, ok := base.(Term)
		if !ok {
			unsup("slice of interior array address")
		}
		sl := c.name(f.vname(x), mkSlice(b, lo, simplifyInt(sub(hi, lo)), simplifyInt(sub(mx, lo))))
		if k, ok := smallConst(simplifyInt(sub(hi, lo))); ok {
			c.eng.constLen[sl.S] = k
		}
		f.vals[x] = sl
	default:
		unsup("slice of %s", x.X.Type())
	}
}

// ---------------------------------------------------------------------------
// Maps

func mapKeys(t types.Type) (dom, val, ln string) {
	k := typeKey(types.Unalias(t).Underlying())
	return "Md " + k, "Mv " + k, "Ml " + k
}

func (f *frame) mapArrays(t types.Type, h *heapState) (dom, val, ln Term, mt *types.Map) {
	c := f.c
	mt = types.Unalias(t).Underlying().(*types.Map)
	dk, vk, lk := mapKeys(t)
	ks, vs := c.sortOf(mt.Key()), c.sortOf(mt.Elem())
	dom = c.heapGet(h, dk, arraySort(SInt, arraySort(ks, SBool)))
	val = c.heapGet(h, vk, arraySort(SInt, arraySort(ks, vs)))
	ln = c.heapGet(h, lk, arraySort(SInt, SInt))
	return
}

func (f *frame) execLookup(x *ssa.Lookup) {
	c := f.c
	if _, isStr := types.Unalias(x.X.Type()).Underlying().(*types.Basic); isStr {
		s, i := f.term(x.X), f.term(x.Index)
		f.safety("bounds", x, and(le(tZero, i), lt(i, mk(SInt, "strlen", s))), f.srcLine(x.Pos()))
		r := mk(SInt, "strat", s, i)
		c.assume(and(le(tZero, r), le(r, intLit(255))))
		f.vals[x] = r
		return
	}
	m, k := f.term(x.X), f.term(x.Index)
	dom, val, _, mt := f.mapArrays(x.X.Type(), f.heap)
	in := and(not(eq(m, tNil)), sel(sel(dom, m), k))
	v := ite(in, sel(sel(val, m), k), c.zeroOf(mt.Elem()))
	v = c.name(f.vname(x), v)
	c.assume(implies(f.guard, c.typeInv(v, mt.Elem(), c.nalloc(f.heap), 0)))
	if x.CommaOk {
		f.vals[x] = Tuple{v, c.name(f.vname(x)+".ok", in)}
	} else {
		f.vals[x] = v
	}
}

func (f *frame) execMapUpdate(x *ssa.MapUpdate) {
	c := f.c
	m, k, v := f.term(x.Map), f.term(x.Key), f.term(x.Value)
	f.safety("nilmap", x, not(eq(m, tNil)), f.srcLine(x.Pos()))
	dom, val, ln, _ := f.mapArrays(x.Map.Type(), f.heap)
	dk, vk, lk := mapKeys(x.Map.Type())
	had := sel(sel(dom, m), k)
	c.heapSetAt(f.heap, lk, store(ln, m, ite(had, sel(ln, m), add(sel(ln, m), tOne))), m)
	c.heapSetAt(f.heap, dk, store(dom, m, store(sel(dom, m), k, tTrue)), m)
	c.heapSetAt(f.heap, vk, store(val, m, store(sel(val, m), k, v)), m)
}

func (f *frame) mapDelete(mv, kv Val, t types.Type) {
	c := f.c
	m, k := f.asTerm(mv), f.asTerm(kv)
	dom, _, ln, _ := f.mapArrays(t, f.heap)
	dk, _, lk := mapKeys(t)
	had := and(not(eq(m, tNil)), sel(sel(dom, m), k))
	c.heapSetAt(f.heap, lk, store(ln, m, ite(had, sub(sel(ln, m), tOne), sel(ln, m))), m)
	c.heapSetAt(f.heap, dk, store(dom, m, store(sel(dom, m), k, tFalse)), m)
}

func (f *frame) execNext(x *ssa.Next) {
	c := f.c
	it, ok := f.get(x.Iter).(*MapIter)
	if !ok {
		unsup("next on unknown iterator")
	}
	okT := c.fresh(f.vname(x)+".ok", SBool)
	if it.IsStr {
		s := f.asTerm(it.Map)
		i := c.fresh(f.vname(x)+".i", SInt)
		r := c.fresh(f.vname(x)+".r", SInt)
		c.assume(implies(okT, and(le(tZero, i), lt(i, mk(SInt, "strlen", s)), le(tZero, r), le(r, intLit(0x10FFFF)))))
		f.vals[x] = Tuple{okT, i, r}
		return
	}
	m := f.asTerm(it.Map)
	dom, val, ln, mt := f.mapArrays(it.MapType, f.heap)
	k := c.fresh(f.vname(x)+".k", c.sortOf(mt.Key()))
	c.assume(implies(f.guard, c.typeInv(k, mt.Key(), c.nalloc(f.heap), 0)))
	c.assume(implies(okT, and(not(eq(m, tNil)), sel(sel(dom, m), k), gt(sel(ln, m), tZero))))
	v := c.name(f.vname(x)+".v", sel(sel(val, m), k))
	c.assume(implies(f.guard, c.typeInv(v, mt.Elem(), c.nalloc(f.heap), 0)))
	c.assumed["map iteration yields the present keys in arbitrary order, each once, and ends when all were produced (the map is assumed not to be modified while it is ranged over)"] = true
	// ghost visited set: a produced key was not produced before; the iteration ends exactly when
	// every present key was produced
	if rg, isRange := x.Iter.(*ssa.Range); isRange {
		ks := c.sortOf(mt.Key())
		vkey := "G iter " + rg.Name()
		vis := c.heapGet(f.heap, vkey, arraySort(ks, SBool))
		c.assume(implies(and(f.guard, okT), not(sel(vis, k))))
		c.counter["q"]++
		qk := quote(fmt.Sprintf("q k %d", c.counter["q"]))
		// (the map reference gets a plain constant name: defined names that expand to ite/not terms
		// are not allowed inside patterns)
		mref := c.fresh("itermap", SInt)
		c.assume(eq(mref, m))
		c.assume(implies(and(f.guard, not(okT), not(eq(m, tNil))), Term{fmt.Sprintf("(forall ((%s %s)) (! (=> (select (select %s %s) %s) (select %s %s)) :pattern ((select (select %s %s) %s))))",
			qk, ks, dom.S, mref.S, qk, vis.S, qk, dom.S, mref.S, qk), SBool}))
		c.heapSet(f.heap, vkey, ite(and(f.guard, okT), store(vis, k, tTrue), vis))
	}
	f.vals[x] = Tuple{okT, k, v}
}

// ---------------------------------------------------------------------------
// Concurrency constructs (abstraction mode)

func (f *frame) abstraction(what string) {
	f.c.assumed["abstraction: "+what] = true
}

func (f *frame) execGo(x *ssa.Go) {
	// The spawned goroutine may run at any time from now on: every heap array it can write becomes
	// volatile (each later read yields an arbitrary value). What it can write is found by a dry run
	// of its body (callees by contract / inlined like everywhere else); if the body contains a call
	// that may write anything, everything becomes volatile.
	c := f.c
	var fn *ssa.Function
	var bindings []Val
	if !x.Call.IsInvoke() {
		switch v := f.get(x.Call.Value).(type) {
		case *Closure:
			fn, bindings = v.Fn, v.Bindings
		}
	}
	if fn == nil || fn.Blocks == nil || f.onStackClosure(fn) {
		f.abstraction("`go` statement with unknown body: the whole heap is volatile afterwards")
		c.volatileAll = true
		f.havocAll("go")
		return
	}
	dc := c.fork()
	g := newFrame(dc, fn)
	g.depth = f.depth + 1
	g.freeVars = bindings
	g.heap = dc.newEpoch()
	start := g.heap.epoch
	g.entry = g.heap.clone()
	g.entryGuard = tTrue
	g.callerPos = x.Pos()
	for i, p := range fn.Params {
		g.vals[p] = f.get(x.Call.Args[i])
	}
	c.eng.inlineStack = append(c.eng.inlineStack, fn)
	g.runRegion(rpo(fn), nil, nil, nil)
	c.eng.inlineStack = c.eng.inlineStack[:len(c.eng.inlineStack)-1]
	wholesale := dc.volatileAll
	for _, r := range g.rets {
		if r.heap.epoch != start {
			wholesale = true
		}
	}
	if len(g.rets) == 0 && g.heap != nil && g.heap.epoch != start {
		wholesale = true
	}
	for a := range dc.assumed {
		c.assumed[a] = true
	}
	if wholesale {
		f.abstraction("`go` statement whose body may write anything: the whole heap is volatile afterwards")
		c.volatileAll = true
		f.havocAll("go")
		return
	}
	var ks []string
	for k := range dc.writes {
		if k != allocKey {
			ks = append(ks, k)
		}
	}
	for k := range dc.volatile {
		if !c.volatile[k] {
			ks = append(ks, k)
		}
	}
	sort.Strings(ks)
	for _, k := range ks {
		c.volatile[k] = true
		c.writes[k] = true
		c.nonFresh[k] = true
	}
	f.abstraction(fmt.Sprintf("`go %s`: heap arrays it may write are volatile afterwards: %v", shortFn(fn), ks))
}

func (f *frame) havocAll(why string) {
	c := f.c
	old := c.nalloc(f.heap)
	prev := f.heap
	f.heap = c.newEpoch()
	c.assume(implies(f.guard, ge(c.nalloc(f.heap), old)))
	c.keepGhost(prev, f.heap, nil)
	f.keepPrivate(prev, f.heap)
}

// keepGhost: ghost fields are specification state; code without a contract cannot name them, so a
// wholesale havoc leaves them unchanged (assumption: callees without contract do not perform the
// operations whose contracts update that ghost state).
func (c *Ctx) keepGhost(from, to *heapState, except map[string]bool) {
	for k, srt := range c.eng.heapSorts {
		if strings.HasPrefix(k, "G iter ") {
			if _, have := from.arrays[k]; have {
				to.arrays[k] = from.arrays[k]
			}
			continue
		}
		if strings.HasPrefix(k, "G ") && !except[k] {
			to.arrays[k] = c.heapGet(from, k, srt)
			c.assumed["ghost state ("+k[2:]+") is not changed by callees that have no contract"] = true
		}
	}
}

func (f *frame) execSend(x *ssa.Send) {
	if f.chanModel() {
		ch := f.asTerm(f.get(x.Chan))
		f.chanAdd(ch, f.guard, 1)
		return
	}
	f.abstraction("channel send modelled as a no-op on tracked state")
}

// Sequential model of buffered channels (only when the ghost fields cbuf / ccap are declared):
// cbuf(ch) is the number of values sent and not yet received, ccap(ch) the capacity given to make.
// A send adds one, a receive takes one (not below zero); a non-blocking send that falls through
// to `default` found the buffer full. Concurrent parties (a receiver already waiting, which takes
// the value directly) are outside this model — the contracts using it are per call.
func (f *frame) chanModel() bool {
	return f.c.eng.ghosts["cbuf"] != nil && f.c.eng.ghosts["ccap"] != nil
}

func (f *frame) chanArrays() (buf, capa Term) {
	srt := arraySort(SInt, SInt)
	return f.c.heapGet(f.heap, "G cbuf", srt), f.c.heapGet(f.heap, "G ccap", srt)
}

func (f *frame) chanAdd(ch, guard Term, delta int64) {
	c := f.c
	c.assumed["channels: sequential model of the buffer (values sent and not yet received); concurrent senders/receivers are not modelled"] = true
	buf, _ := f.chanArrays()
	cur := sel(buf, ch)
	var nv Term
	if delta > 0 {
		nv = add(cur, intLit(delta))
	} else {
		nv = ite(gt(cur, tZero), sub(cur, tOne), tZero)
	}
	c.heapSet(f.heap, "G cbuf", ite(guard, store(buf, ch, nv), buf))
}

func (f *frame) execRecv(x *ssa.UnOp) {
	c := f.c
	f.abstraction("channel receive yields an unconstrained value")
	et := types.Unalias(x.X.Type()).Underlying().(*types.Chan).Elem()
	v := f.havocVal(et, f.vname(x), f.heap)
	if f.chanModel() {
		f.chanAdd(f.asTerm(f.get(x.X)), f.guard, -1)
	}
	if g := c.eng.ghosts["rcvd"]; g != nil {
		// rcvd(ch): how many receives from ch have completed (values or the zero value of a closed
		// channel) — a counter only this rule writes, so it is never negative
		ch := f.asTerm(f.get(x.X))
		arr := c.heapGet(f.heap, "G rcvd", arraySort(SInt, SInt))
		c.assume(implies(f.guard, ge(sel(arr, ch), tZero)))
		c.assumed["joins: rcvd(ch) counts completed receives from ch (ghost counter written by the receive rule only, never negative)"] = true
		c.heapSet(f.heap, "G rcvd", ite(f.guard, store(arr, ch, add(sel(arr, ch), tOne)), arr))
	}
	if x.CommaOk {
		f.vals[x] = Tuple{v, c.fresh(f.vname(x)+".ok", SBool)}
	} else {
		f.vals[x] = v
	}
}

func (f *frame) execSelect(x *ssa.Select) {
	c := f.c
	f.abstraction("select chooses nondeterministically; received values are unconstrained")
	idx := c.fresh(f.vname(x)+".idx", SInt)
	lo := tZero
	if !x.Blocking {
		lo = intLit(-1)
	}
	c.assume(and(le(lo, idx), lt(idx, intLit(int64(len(x.States))))))
	recvOk := c.fresh(f.vname(x)+".recvok", SBool)
	out := Tuple{idx, recvOk}
	if f.chanModel() {
		for k, st := range x.States {
			ch := f.asTerm(f.get(st.Chan))
			chosen := and(f.guard, eq(idx, intLit(int64(k))))
			buf, capa := f.chanArrays()
			c.assume(implies(f.guard, and(ge(sel(buf, ch), tZero), le(sel(buf, ch), imaxT(sel(capa, ch), tZero)))))
			if st.Dir == types.SendOnly {
				if !x.Blocking {
					// falling through to default: this send found the buffer full
					c.assume(implies(and(f.guard, eq(idx, intLit(-1))), ge(sel(buf, ch), sel(capa, ch))))
				}
				f.chanAdd(ch, chosen, 1)
			} else {
				f.chanAdd(ch, chosen, -1)
			}
		}
	}
	for k, st := range x.States {
		if st.Dir == types.RecvOnly {
			et := types.Unalias(st.Chan.Type()).Underlying().(*types.Chan).Elem()
			v := f.havocVal(et, f.vname(x)+".recv", f.heap)
			out = append(out, v)
			f.recvAssumptions(st.Chan, v, et, and(f.guard, eq(idx, intLit(int64(k)))), recvOk)
		}
	}
	f.vals[x] = out
}

// recvAssumptions applies the `recv CHAN:` clauses of the contract (assumed channel invariants).
func (f *frame) recvAssumptions(ch ssa.Value, v Val, et types.Type, guard, ok Term) {
	if !f.top || f.contract == nil || len(f.contract.Recvs) == 0 {
		return
	}
	for _, rs := range f.contract.Recvs {
		match := false
		for _, dv := range f.debug[rs.Chan] {
			if dv == ch {
				match = true
			}
		}
		if !match {
			continue
		}
		env := f.pointEnv(f.heap)
		env.vars["v"] = f.sval(v, et)
		for _, cl := range rs.Assume {
			f.assumeClause(env, cl, and(guard, ok))
			f.c.assumed["assumed channel invariant (recv "+rs.Chan+"): "+cl.Text] = true
		}
		for _, cl := range rs.Closed {
			f.assumeClause(env, cl, and(guard, not(ok)))
			f.c.assumed["assumed when channel "+rs.Chan+" is closed and drained: "+cl.Text] = true
		}
	}
}

// readsEntryVersion: the term is (select |K@0| r) or (select (select |K@0| b) i) — a read of the
// entry version of a heap array.
func readsEntryVersion(s string) bool {
	for strings.HasPrefix(s, "(select ") {
		s = s[len("(select "):]
	}
	if !strings.HasPrefix(s, "|") {
		return false
	}
	j := strings.Index(s[1:], "|")
	return j > 2 && strings.HasSuffix(s[1:1+j], "@0")
}
