package main

import (
	"fmt"

	"golang.org/x/tools/go/ssa"
)

// verifyLemmas turns the lemmas of a package's contract file into obligations. A lemma is a closed
// formula over spec functions, pure methods and (arbitrary) heap contents; it is proved once and is
// not used as a hypothesis anywhere (it documents the link between contracts and the property).
func (e *Engine) verifyLemmas(pkgPath string, names []string) (res *FuncResult) {
	want := map[string]bool{}
	for _, n := range names {
		want[n] = true
	}
	var host *ssa.Function
	if sp := e.pkgs[pkgPath]; sp != nil {
		for _, m := range sp.Members {
			if fn, ok := m.(*ssa.Function); ok && fn.Blocks != nil {
				if host == nil || fn.Name() < host.Name() {
					host = fn
				}
			}
		}
	}
	res = &FuncResult{Key: pkgPath + ".lemmas"}
	if host == nil {
		res.Err = fmt.Errorf("no host function for lemmas of %s", pkgPath)
		return
	}
	c := e.newCtx(host)
	res.Ctx = c
	res.Fn = host
	defer func() {
		if r := recover(); r != nil {
			switch x := r.(type) {
			case unsupported:
				res.Err = fmt.Errorf("outside subset: %s", x.msg)
			case specErr:
				res.Err = fmt.Errorf("spec error: %s", x.msg)
			default:
				panic(r)
			}
		}
	}()
	f := newFrame(c, host)
	c.rootFrame = f
	f.top = true
	f.heap = &heapState{epoch: 0, arrays: map[string]Term{}}
	f.entry = f.heap.clone()
	f.entryGuard = tTrue
	env := f.baseEnv(f.heap)
	for _, ax := range e.axioms {
		if p := e.axiomPkg[ax]; p != "" && p != pkgPath {
			continue
		}
		c.assume(f.evalClause(env, ax))
		c.assumed["axiom: "+ax.Text] = true
	}
	n := 0
	for _, l := range e.lemmas {
		if l.Pkg != pkgPath || (len(want) > 0 && !want[l.Name]) {
			continue
		}
		g := f.evalClause(env, l.C)
		o := c.oblige("lemma", "lemma:"+l.Name, tTrue, g, e.fset.Position(host.Pos()), l.C.Text)
		o.Func = pkgPath + " lemma " + l.Name
		n++
	}
	if n == 0 {
		res.Err = fmt.Errorf("no lemmas found in %s", pkgPath)
	}
	return
}
