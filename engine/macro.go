package main

import "fmt"

// Spec macros (`spec macro name(params) = body`) are expanded syntactically: at evaluation time in
// the environment of the use (so heap reads inside the body see the heap of the use site), and —
// for clauses that become obligations — before the clause is split into conjuncts, so that every
// conjunct of a macro body becomes its own obligation.

var macroTable = map[string]*SpecFunc{}
var macroCounter int

// substExpr replaces free identifiers by expressions.
func substExpr(e Expr, m map[string]Expr) Expr {
	switch x := e.(type) {
	case *EIdent:
		if r, ok := m[x.Name]; ok {
			return r
		}
		return x
	case *EUnary:
		return &EUnary{x.Op, substExpr(x.X, m)}
	case *EBinary:
		return &EBinary{x.Op, substExpr(x.X, m), substExpr(x.Y, m)}
	case *ECall:
		n := &ECall{Fun: x.Fun}
		for _, a := range x.Args {
			n.Args = append(n.Args, substExpr(a, m))
		}
		return n
	case *ESel:
		return &ESel{substExpr(x.X, m), x.Name}
	case *EMethod:
		n := &EMethod{X: substExpr(x.X, m), Name: x.Name}
		for _, a := range x.Args {
			n.Args = append(n.Args, substExpr(a, m))
		}
		return n
	case *EIndex:
		return &EIndex{substExpr(x.X, m), substExpr(x.I, m)}
	case *ESliceExpr:
		n := &ESliceExpr{X: substExpr(x.X, m)}
		if x.Lo != nil {
			n.Lo = substExpr(x.Lo, m)
		}
		if x.Hi != nil {
			n.Hi = substExpr(x.Hi, m)
		}
		return n
	case *EQuant:
		// rename the bound variables (fresh names) so that substituted arguments are not captured
		m2 := map[string]Expr{}
		for k, v := range m {
			m2[k] = v
		}
		n := &EQuant{Forall: x.Forall}
		for _, v := range x.Vars {
			macroCounter++
			nn := fmt.Sprintf("%s_m%d", v.Name, macroCounter)
			m2[v.Name] = &EIdent{nn}
			n.Vars = append(n.Vars, QVar{Name: nn, Sort: v.Sort})
		}
		n.Body = substExpr(x.Body, m2)
		for _, t := range x.Triggers {
			n.Triggers = append(n.Triggers, substExpr(t, m2))
		}
		return n
	}
	return e
}

// expandMacros expands every macro application in e (innermost arguments first).
func expandMacros(e Expr) Expr {
	switch x := e.(type) {
	case *EUnary:
		return &EUnary{x.Op, expandMacros(x.X)}
	case *EBinary:
		return &EBinary{x.Op, expandMacros(x.X), expandMacros(x.Y)}
	case *ECall:
		var args []Expr
		for _, a := range x.Args {
			args = append(args, expandMacros(a))
		}
		if sf := macroTable[x.Fun]; sf != nil && len(args) == len(sf.Params) {
			m := map[string]Expr{}
			for i, p := range sf.Params {
				m[p.Name] = args[i]
			}
			return expandMacros(substExpr(sf.Body, m))
		}
		return &ECall{Fun: x.Fun, Args: args}
	case *ESel:
		return &ESel{expandMacros(x.X), x.Name}
	case *EMethod:
		n := &EMethod{X: expandMacros(x.X), Name: x.Name}
		for _, a := range x.Args {
			n.Args = append(n.Args, expandMacros(a))
		}
		return n
	case *EIndex:
		return &EIndex{expandMacros(x.X), expandMacros(x.I)}
	case *ESliceExpr:
		n := &ESliceExpr{X: expandMacros(x.X)}
		if x.Lo != nil {
			n.Lo = expandMacros(x.Lo)
		}
		if x.Hi != nil {
			n.Hi = expandMacros(x.Hi)
		}
		return n
	case *EQuant:
		n := &EQuant{Forall: x.Forall, Vars: x.Vars, Body: expandMacros(x.Body)}
		for _, t := range x.Triggers {
			n.Triggers = append(n.Triggers, expandMacros(t))
		}
		return n
	}
	return e
}

// exprMentionsCall reports whether e applies the function name (used to tell recursive spec
// function definitions from plain abbreviations).
func exprMentionsCall(e Expr, name string) bool {
	found := false
	var walk func(Expr)
	walk = func(e Expr) {
		switch x := e.(type) {
		case *EIdent:
			if x.Name == name {
				found = true
			}
		case *EUnary:
			walk(x.X)
		case *EBinary:
			walk(x.X)
			walk(x.Y)
		case *ECall:
			if x.Fun == name {
				found = true
			}
			for _, a := range x.Args {
				walk(a)
			}
		case *ESel:
			walk(x.X)
		case *EMethod:
			walk(x.X)
			for _, a := range x.Args {
				walk(a)
			}
		case *EIndex:
			walk(x.X)
			walk(x.I)
		case *ESliceExpr:
			walk(x.X)
			if x.Lo != nil {
				walk(x.Lo)
			}
			if x.Hi != nil {
				walk(x.Hi)
			}
		case *EQuant:
			walk(x.Body)
		}
	}
	walk(e)
	return found
}
