package main

import (
	"flag"
	"fmt"
	"os"
	"sort"
	"strings"
)

func main() {
	if len(os.Args) < 2 {
		fmt.Fprintln(os.Stderr, "usage: govc <verify|check|info|selftest|replay> ...")
		os.Exit(2)
	}
	switch os.Args[1] {
	case "verify":
		cmdVerify(os.Args[2:])
	case "check":
		cmdCheck(os.Args[2:])
	case "info":
		cmdInfo(os.Args[2:])
	default:
		fmt.Fprintln(os.Stderr, "unknown command", os.Args[1])
		os.Exit(2)
	}
}

func verifRoot() string {
	if r := os.Getenv("VERIF_ROOT"); r != "" {
		return r
	}
	return "/verif"
}

func repoRoot() string {
	if r := os.Getenv("VERIF_REPO"); r != "" {
		return r
	}
	return "/repo"
}

func stdContractFiles() []string {
	dir := verifRoot() + "/contracts"
	ents, _ := os.ReadDir(dir)
	var out []string
	for _, e := range ents {
		if strings.HasSuffix(e.Name(), ".contracts") {
			out = append(out, dir+"/"+e.Name())
		}
	}
	sort.Strings(out)
	return out
}

// govc verify [-t ms] [-keep] <pkg pattern> [function ...]
func cmdVerify(args []string) {
	fs := flag.NewFlagSet("verify", flag.ExitOnError)
	timeout := fs.Int("t", 10000, "per-obligation timeout (ms)")
	keep := fs.Bool("keep", false, "keep SMT files")
	verbose := fs.Bool("v", false, "verbose")
	workers := fs.Int("j", 6, "parallel obligations")
	fs.Parse(args)
	rest := fs.Args()
	if len(rest) < 1 {
		fmt.Fprintln(os.Stderr, "usage: govc verify <pkg> [func...]")
		os.Exit(2)
	}
	pkgs := strings.Split(rest[0], ",")
	eng, err := loadEngine(repoRoot(), pkgs, stdContractFiles())
	if err != nil {
		fmt.Fprintln(os.Stderr, "load:", err)
		os.Exit(2)
	}
	var keys []string
	if len(rest) > 1 {
		for _, n := range rest[1:] {
			found := false
			for k, ct := range eng.contracts {
				if !ct.Extern && (ct.Func == n || k == n) {
					keys = append(keys, k)
					found = true
				}
			}
			if !found {
				// allow verifying functions without contract (safety obligations only)
				for p := range eng.pkgs {
					if k := qualify(p, n); eng.findFunc(k) != nil {
						keys = append(keys, k)
						found = true
					}
				}
			}
			if !found {
				fmt.Fprintln(os.Stderr, "no such function:", n)
				os.Exit(2)
			}
		}
	} else {
		for k, ct := range eng.contracts {
			if !ct.Extern {
				keys = append(keys, k)
			}
		}
	}
	sort.Strings(keys)
	dir, _ := os.MkdirTemp("", "govc")
	if !*keep {
		defer os.RemoveAll(dir)
	} else {
		fmt.Println("smt files in", dir)
	}
	bad := 0
	if len(eng.lemmas) > 0 && len(rest) == 1 {
		for p := range eng.pkgs {
			keys = append(keys, "LEMMAS:"+p)
		}
	}
	for _, k := range keys {
		var res *FuncResult
		if strings.HasPrefix(k, "LEMMAS:") {
			res = eng.verifyLemmas(strings.TrimPrefix(k, "LEMMAS:"), nil)
			if res.Err != nil && strings.Contains(res.Err.Error(), "no lemmas") {
				continue
			}
		} else {
			res = eng.verifyFunction(k)
		}
		if res.Err != nil {
			fmt.Printf("FUNC %s: ERROR %v\n", k, res.Err)
			bad++
			continue
		}
		vs := solveAll(res.Ctx, res.Ctx.obls, dir, funcTimeout(eng, k, *timeout), *workers, 1)
		ok := 0
		for _, v := range vs {
			good := verdictGood(v)
			if good {
				ok++
			} else {
				bad++
			}
			if !good || *verbose {
				fmt.Printf("  %-8s %-7s %6dms %s  [%s:%d] %s\n", v.Status, v.Solver, v.Millis, v.Obl.Name, relPath(v.Obl.Pos.Filename), v.Obl.Pos.Line, v.Obl.Text)
				if !good && v.Model != nil {
					var ks []string
					for k := range v.Model {
						ks = append(ks, k)
					}
					sort.Strings(ks)
					for _, k := range ks {
						fmt.Printf("      %s = %s\n", k, v.Model[k])
					}
				}
				if v.Status == "error" {
					fmt.Printf("      %s\n", firstLines(v.Output, 3))
				}
			}
		}
		fmt.Printf("FUNC %s: %d/%d obligations discharged\n", k, ok, len(vs))
		if *verbose || ok != len(vs) {
			var as []string
			for a := range res.Ctx.assumed {
				as = append(as, a)
			}
			sort.Strings(as)
			for _, a := range as {
				fmt.Println("    assumption:", a)
			}
		}
	}
	if bad > 0 {
		os.Exit(1)
	}
}

func firstLines(s string, n int) string {
	ls := strings.Split(s, "\n")
	if len(ls) > n {
		ls = ls[:n]
	}
	return strings.Join(ls, " | ")
}

func cmdInfo(args []string) {
	eng, err := loadEngine(repoRoot(), strings.Split(args[0], ","), stdContractFiles())
	if err != nil {
		fmt.Fprintln(os.Stderr, "load:", err)
		os.Exit(2)
	}
	for _, n := range args[1:] {
		for p := range eng.pkgs {
			k := qualify(p, n)
			fn := eng.findFunc(k)
			if fn == nil {
				continue
			}
			f := newFrame(eng.newCtx(fn), fn)
			fmt.Printf("%s\n", k)
			var hs []*loopInfo
			for _, li := range f.loops {
				hs = append(hs, li)
			}
			sort.Slice(hs, func(i, j int) bool { return hs[i].ordinal < hs[j].ordinal })
			for _, li := range hs {
				pos := eng.fset.Position(token_pos(li))
				fmt.Printf("  loop %d: header block %d (%s) line %d, %d blocks\n", li.ordinal, li.header.Index, li.header.Comment, pos.Line, len(li.blocks))
			}
			fn.WriteTo(os.Stdout)
		}
	}
}
