package main

import (
	"fmt"
	"go/types"
)

// uncapturedOuter resolves, in the contract of a function literal, the name of a variable of an
// enclosing function that is lexically visible at the literal but that the literal does not
// capture (it is not among its free variables). The literal's behaviour cannot depend on such a
// variable, so in the literal's own contract the name denotes an arbitrary value of its type: a
// clause that ties the result to it can then only be proved if it holds for every value — i.e. a
// literal that stopped using the variable fails the clause instead of making the contract
// unresolvable. A name that is not visible at all stays an error (the contract no longer binds).
func (env *specEnv) uncapturedOuter(name string) (SVal, bool) {
	fn := env.f.fn
	if fn == nil || fn.Parent() == nil || fn.Pkg == nil {
		return SVal{}, false
	}
	tp := env.c.eng.tpkgs[fn.Pkg.Pkg.Path()]
	if tp == nil || tp.Types == nil || !fn.Pos().IsValid() {
		return SVal{}, false
	}
	sc := tp.Types.Scope().Innermost(fn.Pos())
	if sc == nil {
		return SVal{}, false
	}
	_, obj := sc.LookupParent(name, fn.Pos())
	v, ok := obj.(*types.Var)
	if !ok || v.Parent() == tp.Types.Scope() || v.IsField() {
		return SVal{}, false
	}
	c := env.c
	sym := quote("outer " + fn.String() + " " + name)
	s := c.sortOf(v.Type())
	c.decl("outer "+sym, fmt.Sprintf("(declare-const %s %s)", sym, s))
	return SVal{T: Term{sym, s}, GoT: v.Type()}, true
}
