package main

import (
	"sync/atomic"
	"bytes"
	"context"
	"fmt"
	"os"
	"os/exec"
	"path/filepath"
	"strings"
	"sync"
	"time"
)

type Verdict struct {
	Obl      *Obligation
	Status   string // unsat, sat, unknown, timeout, error
	Solver   string
	Millis   int64
	Model    map[string]string
	Output   string
	File     string
	Attempts []string
}

type solverCfg struct {
	name string
	args func(file string, timeoutMs int, seed int) []string
}

var solvers = []solverCfg{
	{"z3-new", func(f string, ms, seed int) []string {
		return []string{"z3-new", fmt.Sprintf("-t:%d", ms), fmt.Sprintf("smt.random_seed=%d", seed), fmt.Sprintf("sat.random_seed=%d", seed), f}
	}},
	{"cvc5", func(f string, ms, seed int) []string {
		return []string{"cvc5", "--lang=smt2", fmt.Sprintf("--tlimit=%d", ms), fmt.Sprintf("--seed=%d", seed), "--produce-models", f}
	}},
	{"z3", func(f string, ms, seed int) []string {
		return []string{"z3", fmt.Sprintf("-t:%d", ms), fmt.Sprintf("smt.random_seed=%d", seed), f}
	}},
}

// cvc5 --incremental takes a different preprocessing path: on large ground instantiation queries it
// answered in under a second where the default configuration (and both z3) needed 10-60 s.
var cvc5Inc = solverCfg{"cvc5/inc", func(f string, ms, seed int) []string {
	return []string{"cvc5", "--lang=smt2", "--incremental", fmt.Sprintf("--tlimit=%d", ms), fmt.Sprintf("--seed=%d", seed), f}
}}

// smtText renders the SMT-LIB query of an obligation. With light set, quantified hypotheses
// are left out (fewer assumptions: an `unsat` answer is still a proof; any other answer is
// discarded).
func (c *Ctx) smtText(o *Obligation, light bool) string {
	var b strings.Builder
	b.WriteString(prelude)
	quantified := func(l string) bool {
		return light && strings.HasPrefix(l, "(assert") && (strings.Contains(l, "(forall ") || strings.Contains(l, "(exists "))
	}
	for _, d := range c.decls {
		if quantified(d) {
			continue
		}
		b.WriteString(d)
		b.WriteByte('\n')
	}
	for _, l := range c.body[:o.Prefix] {
		if quantified(l) {
			continue
		}
		b.WriteString(l)
		b.WriteByte('\n')
	}
	if o.WantSat {
		b.WriteString("(assert " + and(o.Guard, o.Goal).S + ")\n")
	} else {
		b.WriteString("(assert " + o.Guard.S + ")\n")
		b.WriteString("(assert (not " + o.Goal.S + "))\n")
	}
	b.WriteString("(check-sat)\n")
	if len(o.Models) > 0 && !o.WantSat {
		var qs []string
		for _, q := range o.Models {
			qs = append(qs, q.T.S)
		}
		b.WriteString("(get-value (" + strings.Join(qs, " ") + "))\n")
	}
	return b.String()
}

func runSolver(ctx context.Context, sc solverCfg, file string, timeoutMs, seed int) (status, out string) {
	args := sc.args(file, timeoutMs, seed)
	cctx, cancel := context.WithTimeout(ctx, time.Duration(timeoutMs+1500)*time.Millisecond)
	defer cancel()
	cmd := exec.CommandContext(cctx, args[0], args[1:]...)
	var buf bytes.Buffer
	cmd.Stdout = &buf
	cmd.Stderr = &buf
	_ = cmd.Run()
	out = buf.String()
	// skip solver warnings in front of the answer
	for strings.HasPrefix(out, "WARNING") || strings.HasPrefix(out, "(warning") {
		i := strings.Index(out, "\n")
		if i < 0 {
			break
		}
		out = out[i+1:]
	}
	first := strings.TrimSpace(strings.SplitN(out, "\n", 2)[0])
	switch first {
	case "unsat", "sat", "unknown":
		return first, out
	case "timeout":
		return "timeout", out
	}
	if cctx.Err() != nil {
		return "timeout", out
	}
	if strings.Contains(out, "interrupted") || strings.Contains(out, "timeout") {
		return "timeout", out
	}
	return "error", out
}

// solveOne decides one obligation: z3-new first with a short budget, then all solvers raced.
func solveOne(c *Ctx, o *Obligation, dir string, timeoutMs int, seed int) *Verdict {
	file := filepath.Join(dir, sanitizeFile(o.Name)+".smt2")
	text := c.smtText(o, false)
	if err := os.WriteFile(file, []byte(text), 0o644); err != nil {
		return &Verdict{Obl: o, Status: "error", Output: err.Error()}
	}
	v := &Verdict{Obl: o, File: file}
	start := time.Now()
	definite := func(s string) bool { return s == "unsat" || s == "sat" }
	if !o.WantSat {
		// the goal restates a hypothesis: only its guards have to follow
		if it, ok := c.smtIdent(o); ok {
			idfile := filepath.Join(dir, sanitizeFile(o.Name)+".ident.smt2")
			if err := os.WriteFile(idfile, []byte(it), 0o644); err == nil {
				if name, out, ok := raceUnsat(idfile, []solverCfg{solvers[0], z3NewArith6}, 5000, seed, &v.Attempts, "ident"); ok {
					v.Status, v.Solver, v.Output = "unsat", name+"(ident)", out
					v.Millis = time.Since(start).Milliseconds()
					return v
				}
			}
		}
	}
	if !o.WantSat {
		// light query first: without quantified hypotheses
		if lt := c.smtText(o, true); len(lt) != len(text) {
			lfile := filepath.Join(dir, sanitizeFile(o.Name)+".light.smt2")
			if err := os.WriteFile(lfile, []byte(lt), 0o644); err == nil {
				ms := timeoutMs / 3
				if ms > 8000 {
					ms = 8000
				}
				if name, out, ok := raceUnsat(lfile, []solverCfg{solvers[0], z3NewArith6}, ms, seed, &v.Attempts, "light"); ok {
					v.Status, v.Solver, v.Output = "unsat", name+"(light)", out
					v.Millis = time.Since(start).Milliseconds()
					return v
				}
			}
		}
	}
	if !o.WantSat {
		// instantiation-based query: skolemised goal, hypotheses instantiated at ground terms
		if it, ok := c.smtInst(o); ok {
			ifile := filepath.Join(dir, sanitizeFile(o.Name)+".inst.smt2")
			if err := os.WriteFile(ifile, []byte(it), 0o644); err == nil {
				ms := timeoutMs / 2
				if ms > 45000 {
					ms = 45000
				}
				if name, out, ok := raceUnsat(ifile, []solverCfg{solvers[0], z3NewArith6, solvers[1], cvc5Inc, solvers[2]}, ms, seed, &v.Attempts, "inst"); ok {
					v.Status, v.Solver, v.Output = "unsat", name+"(inst)", out
					v.Millis = time.Since(start).Milliseconds()
					return v
				}
			}
		}
	}
	if o.WantSat {
		// vacuity check: a short budget is enough (only `unsat` is a failure)
		if timeoutMs > 6000 {
			timeoutMs = 6000
		}
		st, out := runSolver(context.Background(), solvers[0], file, timeoutMs, seed)
		v.Attempts = append(v.Attempts, fmt.Sprintf("%s:%s", solvers[0].name, st))
		v.Status, v.Solver, v.Output = st, solvers[0].name, out
		if st == "error" {
			st, out = runSolver(context.Background(), solvers[1], file, timeoutMs, seed)
			v.Attempts = append(v.Attempts, fmt.Sprintf("%s:%s", solvers[1].name, st))
			v.Status, v.Solver, v.Output = st, solvers[1].name, out
		}
		v.Millis = time.Since(start).Milliseconds()
		return v
	}
	// Budget heuristic: when every solver found the quantifier-free instantiation query satisfiable,
	// the full query rarely turns out unsat; it is still tried (only `unsat` counts as a proof), but
	// with a short budget and a single round, so that a broken tree does not cost minutes per
	// failed obligation.
	rounds := 2
	instSat := 0
	for _, a := range v.Attempts {
		if strings.HasPrefix(a, "inst/") && strings.HasSuffix(a, ":sat") {
			instSat++
		}
	}
	if instSat >= 2 {
		short := timeoutMs / 3
		if short < 8000 {
			short = 8000
		}
		if timeoutMs > short {
			timeoutMs = short
		}
	}
	first := timeoutMs / 4
	if first > 3000 {
		first = 3000
	}
	st, out := runSolver(context.Background(), solvers[0], file, first, seed)
	v.Attempts = append(v.Attempts, fmt.Sprintf("%s:%s", solvers[0].name, st))
	if definite(st) {
		v.Status, v.Solver, v.Output = st, solvers[0].name, out
	} else {
		for round := 0; round < rounds && !definite(v.Status); round++ {
			ctx, cancel := context.WithCancel(context.Background())
			type res struct {
				st, out, name string
			}
			ch := make(chan res, len(solvers))
			for _, sc := range solvers {
				sc := sc
				go func() {
					s, o := runSolver(ctx, sc, file, timeoutMs, seed+round*7919)
					ch <- res{s, o, sc.name}
				}()
			}
			last := res{st: "unknown"}
			for range solvers {
				r := <-ch
				v.Attempts = append(v.Attempts, fmt.Sprintf("%s:%s", r.name, r.st))
				if definite(r.st) {
					v.Status, v.Solver, v.Output = r.st, r.name, r.out
					break
				}
				if r.st != "error" || last.st == "unknown" {
					last = r
				}
			}
			cancel()
			if !definite(v.Status) {
				v.Status, v.Solver, v.Output = last.st, last.name, last.out
			}
			if v.Status == "error" {
				break
			}
		}
	}
	v.Millis = time.Since(start).Milliseconds()
	if v.Status == "sat" && len(o.Models) > 0 {
		v.Model = parseModel(o, v.Output)
	}
	return v
}

func sanitizeFile(s string) string {
	r := strings.NewReplacer("/", "_", " ", "_", "*", "p", "(", "", ")", "", ":", "_", "[", "_", "]", "_", "|", "_", "\"", "", "'", "", "<", "lt", ">", "gt", "&", "and", ";", "_", "{", "_", "}", "_", "=", "eq", ",", "_", "$", "_", "!", "not", "?", "_", "\\", "_", "%", "pct", "#", "_", "~", "_", "+", "plus", "`", "_")
	s = r.Replace(s)
	if len(s) > 150 {
		s = s[:150]
	}
	return s
}

// parseModel parses the (get-value ...) answer: ((term value) (term value) ...).
func parseModel(o *Obligation, out string) map[string]string {
	i := strings.Index(out, "\n")
	if i < 0 {
		return nil
	}
	body := strings.TrimSpace(out[i+1:])
	if !strings.HasPrefix(body, "(") {
		return nil
	}
	body = body[1:]
	m := map[string]string{}
	pos := 0
	for k := 0; k < len(o.Models); k++ {
		for pos < len(body) && (body[pos] == ' ' || body[pos] == '\n') {
			pos++
		}
		if pos >= len(body) || body[pos] != '(' {
			break
		}
		end := sexpEnd(body, pos)
		pair := body[pos+1 : end-1]
		// pair = "<term> <value>"
		te := sexpEnd(pair, 0)
		val := strings.TrimSpace(pair[te:])
		m[o.Models[k].Name] = normalizeValue(val)
		pos = end
	}
	return m
}

func normalizeValue(v string) string {
	v = strings.TrimSpace(v)
	if strings.HasPrefix(v, "(- ") && strings.HasSuffix(v, ")") {
		return "-" + strings.TrimSpace(v[3:len(v)-1])
	}
	return v
}

// solveAll decides all obligations of a context in parallel.
// failedSoFar counts failed obligations of the whole run (all functions of the property).
var failedSoFar int32

const maxFailuresPerRun = 6

func solveAll(c *Ctx, obls []*Obligation, dir string, timeoutMs, workers, seed int) []*Verdict {
	out := make([]*Verdict, len(obls))
	var wg sync.WaitGroup
	sem := make(chan struct{}, workers)
	for i, o := range obls {
		wg.Add(1)
		sem <- struct{}{}
		go func(i int, o *Obligation) {
			defer wg.Done()
			defer func() { <-sem }()
			if atomic.LoadInt32(&failedSoFar) >= maxFailuresPerRun && os.Getenv("GOVC_NOCAP") == "" {
				// enough failed obligations to report: the rest of the run is not attempted (a
				// broken tree must not cost one solver timeout per obligation)
				out[i] = &Verdict{Obl: o, Status: "skipped"}
				return
			}
			out[i] = solveOne(c, o, dir, timeoutMs, seed)
			if !verdictGood(out[i]) {
				atomic.AddInt32(&failedSoFar, 1)
			}
		}(i, o)
	}
	wg.Wait()
	return out
}

// verdictGood: a proof obligation is discharged by `unsat`; a vacuity check (WantSat) passes
// unless the solver proves the assumptions contradictory (`unsat`). `unknown`/timeout on a
// vacuity check means "not shown vacuous" and is accepted (quantified assumptions make `sat`
// answers hard to obtain); it is reported as such in the evidence.
func verdictGood(v *Verdict) bool {
	if v.Obl.WantSat {
		return v.Status == "sat" || v.Status == "unknown" || v.Status == "timeout"
	}
	return v.Status == "unsat"
}

// z3NewArith6: z3 5.1 with the alternative arithmetic solver; decides nonlinear divisibility goals
// (x % m == 0 chains with symbolic m) that the default configuration answers `unknown` to for most
// random seeds (measured on splitQuery's step-grid invariant: 0.6 s vs. unknown after 20 s).
var z3NewArith6 = solverCfg{"z3-new/arith6", func(f string, ms, seed int) []string {
	return []string{"z3-new", fmt.Sprintf("-t:%d", ms), "smt.arith.solver=6", fmt.Sprintf("smt.random_seed=%d", seed), fmt.Sprintf("sat.random_seed=%d", seed), f}
}}

// raceUnsat runs several solver configurations on one query in parallel; the first `unsat` wins.
func raceUnsat(file string, cfgs []solverCfg, ms, seed int, attempts *[]string, stage string) (string, string, bool) {
	ctx, cancel := context.WithCancel(context.Background())
	defer cancel()
	type res struct{ st, out, name string }
	ch := make(chan res, len(cfgs))
	for _, sc := range cfgs {
		sc := sc
		go func() {
			s, o := runSolver(ctx, sc, file, ms, seed)
			ch <- res{s, o, sc.name}
		}()
	}
	for range cfgs {
		r := <-ch
		*attempts = append(*attempts, fmt.Sprintf("%s/%s:%s", stage, r.name, r.st))
		if r.st == "unsat" {
			return r.name, r.out, true
		}
	}
	return "", "", false
}
