package main

import (
	"fmt"
	"os"
	"go/types"
	"strings"

	"golang.org/x/tools/go/ssa"
)

// assumeSortedBy states what a sort leaves behind in terms of the comparison function the CODE
// passes to it: after slices.SortFunc(x, cmp) every pair i < j of positions satisfies
// cmp(x[i], x[j]) <= 0, after sort.Slice(x, less) no pair i < j has less(j, i). The comparison
// function is a closure of the repository: its body is executed symbolically once, for two
// arbitrary positions (fresh constants), in the state after the sort; what that execution defines
// and assumes is then generalised over the two positions (the constants become bound variables,
// named intermediate terms are expanded). If the body does anything the generalisation cannot
// carry (writes to the heap, loops, obligations other than index checks), nothing is assumed.
// Assumed with it (listed): the comparison function is a strict weak order as the sort requires,
// and it does not panic for positions of the slice.
func (f *frame) assumeSortedBy(kind string, sl Term, elem types.Type, inner Term, clv Val) {
	c := f.c
	cl, ok := clv.(*Closure)
	if !ok || cl.Fn == nil || cl.Fn.Blocks == nil || len(cl.Fn.Blocks) > 12 {
		if os.Getenv("GOVC_SORT_DEBUG") != "" {
			fmt.Fprintf(os.Stderr, "sortspec: not a usable closure: %T\n", clv)
		}
		return
	}
	for _, b := range cl.Fn.Blocks {
		for _, in := range b.Instrs {
			switch x := in.(type) {
			case *ssa.Store:
				// stores into the closure's own locals (parameters spilled to memory) are fine
				a := x.Addr
				for {
					if fa, ok := a.(*ssa.FieldAddr); ok {
						a = fa.X
						continue
					}
					if ia, ok := a.(*ssa.IndexAddr); ok {
						a = ia.X
						continue
					}
					break
				}
				if _, local := a.(*ssa.Alloc); !local {
					return
				}
			case *ssa.MapUpdate, *ssa.Go, *ssa.Defer, *ssa.Send:
				return
			}
		}
	}
	c.counter["sortpos"]++
	n := c.counter["sortpos"]
	ci := Term{quote(fmt.Sprintf("sortpos i %d", n)), SInt}
	cj := Term{quote(fmt.Sprintf("sortpos j %d", n)), SInt}
	c.decl("sortpos "+ci.S, fmt.Sprintf("(declare-const %s Int)", ci.S))
	c.decl("sortpos "+cj.S, fmt.Sprintf("(declare-const %s Int)", cj.S))
	// state to restore
	nBody, nObl := len(c.body), len(c.obls)
	savedHeap, savedGuard, savedPanics := f.heap.clone(), f.guard, len(f.panics)
	var args []Val
	switch kind {
	case "cmp": // cmp(x[i], x[j])
		args = []Val{sel(inner, add(sOff(sl), ci)), sel(inner, add(sOff(sl), cj))}
	case "less": // less(j, i)
		args = []Val{cj, ci}
	}
	var res Val
	failed := false
	func() {
		defer func() {
			if r := recover(); r != nil {
				failed = true
			}
		}()
		res = f.inline(nil, cl.Fn, args, cl.Bindings, cl.Fn.Pos())
	}()
	lines := append([]string{}, c.body[nBody:]...)
	// (the body has no store instructions; a callee that havocs the heap starts a new epoch)
	heapChanged := f.heap.epoch != savedHeap.epoch
	// undo: the execution was only a probe
	c.body = c.body[:nBody]
	c.obls = c.obls[:nObl]
	f.heap, f.guard = savedHeap, savedGuard
	f.panics = f.panics[:savedPanics]
	rt, isTerm := res.(Term)
	if os.Getenv("GOVC_SORT_DEBUG") != "" {
		fmt.Fprintf(os.Stderr, "sortspec: probe failed=%v heapChanged=%v isTerm=%v lines=%d res=%T\n", failed, heapChanged, isTerm, len(lines), res)
	}
	if failed || heapChanged || !isTerm {
		return
	}
	// expand the names defined during the probe
	defs := map[string]string{}
	var asserts []string
	for _, l := range lines {
		if strings.HasPrefix(l, "(define-fun |") {
			_, as := splitTop(l)
			if len(as) == 4 && strings.TrimSpace(as[1]) == "()" {
				defs[strings.TrimSpace(as[0])] = strings.TrimSpace(as[3])
				continue
			}
			return
		}
		if strings.HasPrefix(l, "(assert ") {
			asserts = append(asserts, strings.TrimSuffix(strings.TrimPrefix(l, "(assert "), ")"))
			continue
		}
		if strings.HasPrefix(l, "(declare-") {
			return // a fresh symbol that would depend on the positions
		}
	}
	var expand func(t string, depth int) (string, bool)
	expand = func(t string, depth int) (string, bool) {
		if depth > 12 || len(t) > 200000 {
			return "", false
		}
		var b strings.Builder
		changed := false
		for i := 0; i < len(t); {
			if t[i] == '|' {
				j := i + 1
				for j < len(t) && t[j] != '|' {
					j++
				}
				sym := t[i : j+1]
				if body, ok := defs[sym]; ok {
					b.WriteString(body)
					changed = true
				} else {
					b.WriteString(sym)
				}
				i = j + 1
				continue
			}
			b.WriteByte(t[i])
			i++
		}
		if !changed {
			return t, true
		}
		return expand(b.String(), depth+1)
	}
	c.counter["q"]++
	qi := quote(fmt.Sprintf("q i %d", c.counter["q"]))
	c.counter["q"]++
	qj := quote(fmt.Sprintf("q j %d", c.counter["q"]))
	gen := func(t string) (string, bool) {
		e, ok := expand(t, 0)
		if !ok {
			return "", false
		}
		e = strings.ReplaceAll(e, ci.S, qi)
		e = strings.ReplaceAll(e, cj.S, qj)
		return e, true
	}
	rng := fmt.Sprintf("(and (<= 0 %s) (< %s %s) (< %s %s))", qi, qi, qj, qj, sLen(sl).S)
	var side []string
	for _, a := range asserts {
		g, ok := gen(a)
		if !ok {
			return
		}
		if strings.Contains(g, qi) || strings.Contains(g, qj) {
			side = append(side, g)
		}
	}
	r, ok := gen(rt.S)
	if !ok {
		return
	}
	var fact string
	switch kind {
	case "cmp":
		fact = "(<= " + r + " 0)"
	case "less":
		fact = "(not " + r + ")"
	}
	for _, sd := range side {
		c.assume(implies(f.guard, Term{fmt.Sprintf("(forall ((%s Int) (%s Int)) (=> %s %s))", qi, qj, rng, sd), SBool}))
	}
	c.assume(implies(f.guard, Term{fmt.Sprintf("(forall ((%s Int) (%s Int)) (=> %s %s))", qi, qj, rng, fact), SBool}))
	c.assumed["a sort leaves its slice ordered by the comparison function the code passes (executed symbolically for two arbitrary positions and generalised); the function is a strict weak order and does not panic for positions of the slice"] = true
}
