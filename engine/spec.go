package main

import (
	"fmt"
	"math/big"
	"os"
	"strconv"
	"strings"
	"unicode"
)

// ---------------------------------------------------------------------------
// Spec expression AST

type Expr interface{}

type (
	EIdent struct{ Name string }
	EInt   struct{ V *big.Int }
	EStr   struct{ V string }
	EReal  struct{ S string }
	EBool  struct{ V bool }
	ENil   struct{}
	EUnary struct {
		Op string
		X  Expr
	}
	EBinary struct {
		Op   string
		X, Y Expr
	}
	ECall struct {
		Fun  string
		Args []Expr
	}
	ESel struct {
		X    Expr
		Name string
	}
	EMethod struct {
		X    Expr
		Name string
		Args []Expr
	}
	EIndex struct {
		X, I Expr
	}
	ESliceExpr struct {
		X      Expr
		Lo, Hi Expr
	}
	EQuant struct {
		Forall   bool
		Vars     []QVar
		Body     Expr
		Triggers []Expr
	}
)

type QVar struct {
	Name string
	Sort string // spec sort name; "" = int
}

// ---------------------------------------------------------------------------
// Lexer

type tok struct {
	kind string // ident, int, str, op, eof
	text string
}

func lex(s string) ([]tok, error) {
	var toks []tok
	i := 0
	for i < len(s) {
		c := s[i]
		switch {
		case c == ' ' || c == '\t' || c == '\n':
			i++
		case unicode.IsLetter(rune(c)) || c == '_':
			j := i
			for j < len(s) && (unicode.IsLetter(rune(s[j])) || unicode.IsDigit(rune(s[j])) || s[j] == '_') {
				j++
			}
			toks = append(toks, tok{"ident", s[i:j]})
			i = j
		case unicode.IsDigit(rune(c)):
			j := i
			for j < len(s) && (unicode.IsDigit(rune(s[j])) || s[j] == '_' || s[j] == 'x' || (s[j] >= 'a' && s[j] <= 'f') || (s[j] >= 'A' && s[j] <= 'F')) {
				j++
			}
			if j+1 < len(s) && s[j] == '.' && unicode.IsDigit(rune(s[j+1])) {
				k := j + 1
				for k < len(s) && unicode.IsDigit(rune(s[k])) {
					k++
				}
				toks = append(toks, tok{"real", s[i:k]})
				i = k
				continue
			}
			toks = append(toks, tok{"int", strings.ReplaceAll(s[i:j], "_", "")})
			i = j
		case c == '"':
			j := i + 1
			for j < len(s) && s[j] != '"' {
				if s[j] == '\\' {
					j++
				}
				j++
			}
			if j >= len(s) {
				return nil, fmt.Errorf("unterminated string in %q", s)
			}
			v, err := strconv.Unquote(s[i : j+1])
			if err != nil {
				return nil, err
			}
			toks = append(toks, tok{"str", v})
			i = j + 1
		default:
			ops := []string{"<==>", "==>", "::", "==", "!=", "<=", ">=", "&&", "||", "<<", ">>", "+", "-", "*", "/", "%", "<", ">", "!", "(", ")", "[", "]", ".", ",", ":", "{", "}", "=", "&", "?"}
			found := false
			for _, op := range ops {
				if strings.HasPrefix(s[i:], op) {
					toks = append(toks, tok{"op", op})
					i += len(op)
					found = true
					break
				}
			}
			if !found {
				return nil, fmt.Errorf("unexpected character %q in %q", c, s)
			}
		}
	}
	toks = append(toks, tok{"eof", ""})
	return toks, nil
}

// ---------------------------------------------------------------------------
// Parser (precedence climbing)

type parser struct {
	toks []tok
	pos  int
	src  string
}

func parseExpr(s string) (Expr, error) {
	toks, err := lex(s)
	if err != nil {
		return nil, err
	}
	p := &parser{toks: toks, src: s}
	var e Expr
	func() {
		defer func() {
			if r := recover(); r != nil {
				if pe, ok := r.(parseError); ok {
					err = fmt.Errorf("%s in %q", string(pe), s)
					return
				}
				panic(r)
			}
		}()
		e = p.expr(0)
		if p.peek().kind != "eof" {
			p.fail("unexpected %q", p.peek().text)
		}
	}()
	return e, err
}

type parseError string

func (p *parser) fail(f string, a ...interface{}) {
	panic(parseError(fmt.Sprintf(f, a...)))
}
func (p *parser) peek() tok { return p.toks[p.pos] }
func (p *parser) next() tok { t := p.toks[p.pos]; p.pos++; return t }
func (p *parser) isOp(op string) bool {
	t := p.peek()
	return t.kind == "op" && t.text == op
}
func (p *parser) expectOp(op string) {
	if !p.isOp(op) {
		p.fail("expected %q, got %q", op, p.peek().text)
	}
	p.next()
}

var binPrec = map[string]int{
	"<==>": 1, "==>": 2, "||": 3, "&&": 4,
	"==": 5, "!=": 5, "<": 5, "<=": 5, ">": 5, ">=": 5,
	"+": 6, "-": 6,
	"*": 7, "/": 7, "%": 7, "<<": 7, ">>": 7,
}

func (p *parser) expr(minPrec int) Expr {
	lhs := p.unary()
	for {
		t := p.peek()
		if t.kind != "op" {
			return lhs
		}
		prec, ok := binPrec[t.text]
		if !ok || prec < minPrec {
			return lhs
		}
		p.next()
		var rhs Expr
		if t.text == "==>" { // right associative
			rhs = p.expr(prec)
		} else {
			rhs = p.expr(prec + 1)
		}
		lhs = &EBinary{t.text, lhs, rhs}
	}
}

func (p *parser) unary() Expr {
	t := p.peek()
	if t.kind == "op" && (t.text == "!" || t.text == "-") {
		p.next()
		return &EUnary{t.text, p.unary()}
	}
	if t.kind == "ident" && (t.text == "forall" || t.text == "exists") {
		p.next()
		var vars []QVar
		for {
			v := p.next()
			if v.kind != "ident" {
				p.fail("quantifier variable expected")
			}
			qv := QVar{Name: v.text}
			if p.peek().kind == "ident" || p.isOp("*") {
				// sort name or Go type: [*]name[.name]
				if p.isOp("*") {
					p.next()
					qv.Sort = "*"
				}
				qv.Sort += p.next().text
				if p.isOp(".") {
					p.next()
					qv.Sort += "." + p.next().text
				}
			}
			vars = append(vars, qv)
			if p.isOp(",") {
				p.next()
				continue
			}
			break
		}
		p.expectOp("::")
		var trig []Expr
		if p.isOp("{") { // explicit trigger terms: forall x :: {f(x), g(x)} body
			p.next()
			for {
				trig = append(trig, p.expr(0))
				if p.isOp(",") {
					p.next()
					continue
				}
				p.expectOp("}")
				break
			}
		}
		body := p.expr(0)
		return &EQuant{t.text == "forall", vars, body, trig}
	}
	return p.postfix(p.primary())
}

func (p *parser) primary() Expr {
	t := p.next()
	switch t.kind {
	case "int":
		v, ok := new(big.Int).SetString(t.text, 0)
		if !ok {
			p.fail("bad int %q", t.text)
		}
		return &EInt{v}
	case "real":
		return &EReal{t.text}
	case "str":
		return &EStr{t.text}
	case "ident":
		switch t.text {
		case "true":
			return &EBool{true}
		case "false":
			return &EBool{false}
		case "nil":
			return &ENil{}
		}
		if p.isOp("(") {
			p.next()
			args := p.args()
			return &ECall{t.text, args}
		}
		return &EIdent{t.text}
	case "op":
		if t.text == "(" {
			e := p.expr(0)
			p.expectOp(")")
			return e
		}
	}
	p.fail("unexpected %q", t.text)
	return nil
}

func (p *parser) args() []Expr {
	var args []Expr
	if p.isOp(")") {
		p.next()
		return args
	}
	for {
		args = append(args, p.expr(0))
		if p.isOp(",") {
			p.next()
			continue
		}
		p.expectOp(")")
		return args
	}
}

func (p *parser) postfix(e Expr) Expr {
	for {
		switch {
		case p.isOp("."):
			p.next()
			n := p.next()
			if n.kind != "ident" {
				p.fail("selector expected")
			}
			if p.isOp("(") {
				p.next()
				e = &EMethod{e, n.text, p.args()}
			} else {
				e = &ESel{e, n.text}
			}
		case p.isOp("["):
			p.next()
			if p.isOp(":") {
				p.next()
				var hi Expr
				if !p.isOp("]") {
					hi = p.expr(0)
				}
				p.expectOp("]")
				e = &ESliceExpr{e, nil, hi}
				continue
			}
			i := p.expr(0)
			if p.isOp(":") {
				p.next()
				var hi Expr
				if !p.isOp("]") {
					hi = p.expr(0)
				}
				p.expectOp("]")
				e = &ESliceExpr{e, i, hi}
				continue
			}
			p.expectOp("]")
			e = &EIndex{e, i}
		default:
			return e
		}
	}
}

// ---------------------------------------------------------------------------
// Contract files

type Clause struct {
	Kind string
	Text string
	E    Expr
	File string
	Line int
}

type LoopSpec struct {
	Assumes    []*Clause // assumed at the loop head without proof (listed as assumptions)
	Exits      []*Clause // proved on every edge that leaves the loop (state of the exiting iteration)
	Invariants []*Clause
	Decreases  *Clause
	FrameEntry bool // `loop k: frame entry`
	FrameMod   bool // `loop k: frame modifies`: like frame entry, except for the objects of the function's modifies clause
	FrameLoop  bool // `loop k: frame loop [e, ...]`: objects that existed when the LOOP was entered are unchanged, except those named
	FrameLoopX []Expr
}

type Let struct {
	Name string
	E    Expr
	Text string
}

type AtCall struct {
	Callee  string // textual callee name as it appears in the SSA call (suffix match)
	Ordinal int
	Asserts []*Clause
	Assumes []*Clause // ghost updates expressed as equalities over ghost state (trusted only for ghost)
	Sets    []*GhostSet
}

// GhostSet is a ghost assignment G(Obj) := Val attached to a call site.
type GhostSet struct {
	Name     string
	Obj, Val *Clause
}

type Contract struct {
	Func     string
	Extern   bool
	Lets     []Let
	Requires []*Clause
	Ensures  []*Clause
	Modifies []string // heap keys patterns; nil = unspecified (derive / everything for extern)
	HasMod   bool
	Decreases *Clause // variant for recursive calls of the function itself
	Pure     bool
	Loops    map[int]*LoopSpec
	AtCalls  []*AtCall
	Recvs    []*RecvSpec
	Opts     map[string]string
	File     string
	Line     int
	Results  []string // optional result names given in header "-> (a, b)"
	Params   []string // optional parameter names for extern contracts
}

// RecvSpec: assumed channel invariant of a receive on the channel held by local variable Chan.
// `assume E` constrains the received value (bound to v) when a value was received, `closed E` holds
// when the receive reports that the channel is closed and drained.
type RecvSpec struct {
	Chan   string
	Assume []*Clause
	Closed []*Clause
}

type SpecFunc struct {
	Macro  bool // `spec macro`: expanded in the environment (heap, old heap) of each use
	Name   string
	Params []QVar
	Ret    string
	Body   Expr
	Text   string
	Axioms []*Clause
}

type GhostField struct {
	Name string
	Sort string
}

type Lemma struct {
	Name string
	C    *Clause
	Pkg  string
}

type ContractFile struct {
	Path      string
	Contracts map[string]*Contract
	Order     []string
	SpecFuncs []*SpecFunc
	Ghosts    []*GhostField
	Lemmas    []*Lemma
	Axioms    []*Clause
	Scan      map[string]int // construct counts for the trusted-base scan
}

func parseContractFile(path string) (*ContractFile, error) {
	data, err := os.ReadFile(path)
	if err != nil {
		return nil, err
	}
	cf := &ContractFile{Path: path, Contracts: map[string]*Contract{}, Scan: map[string]int{}}
	type rawClause struct {
		text string
		line int
	}
	var raws []rawClause
	for i, ln := range strings.Split(string(data), "\n") {
		t := strings.TrimSpace(ln)
		if !strings.HasPrefix(t, "//@") {
			continue
		}
		body := strings.TrimSpace(t[3:])
		if body == "" || strings.HasPrefix(body, "--") {
			continue
		}
		if j := strings.Index(body, " -- "); j >= 0 { // trailing comment
			body = strings.TrimSpace(body[:j])
		}
		first := body
		if k := strings.IndexAny(body, " \t:("); k >= 0 {
			first = body[:k]
		}
		switch first {
		case "func", "extern", "requires", "ensures", "let", "modifies", "pure", "loop", "spec", "ghost", "lemma", "axiom", "at", "opt", "results", "params", "recv", "decreases":
			raws = append(raws, rawClause{body, i + 1})
		default:
			if len(raws) == 0 {
				return nil, fmt.Errorf("%s:%d: continuation without clause", path, i+1)
			}
			raws[len(raws)-1].text += " " + body
		}
	}
	var cur *Contract
	var curSF *SpecFunc
	mkClause := func(kind, text string, line int) (*Clause, error) {
		e, err := parseExpr(text)
		if err != nil {
			return nil, fmt.Errorf("%s:%d: %v", path, line, err)
		}
		return &Clause{Kind: kind, Text: text, E: e, File: path, Line: line}, nil
	}
	for _, rc := range raws {
		kw, rest := splitKw(rc.text)
		cf.Scan[kw]++
		switch kw {
		case "func", "extern":
			name := strings.TrimSpace(rest)
			cur = &Contract{Func: name, Extern: kw == "extern", Loops: map[int]*LoopSpec{}, Opts: map[string]string{}, File: path, Line: rc.line}
			curSF = nil
			if _, dup := cf.Contracts[name]; dup {
				return nil, fmt.Errorf("%s:%d: duplicate contract for %s", path, rc.line, name)
			}
			cf.Contracts[name] = cur
			cf.Order = append(cf.Order, name)
		case "params":
			for _, n := range strings.Split(rest, ",") {
				cur.Params = append(cur.Params, strings.TrimSpace(n))
			}
		case "results":
			for _, n := range strings.Split(rest, ",") {
				cur.Results = append(cur.Results, strings.TrimSpace(n))
			}
		case "requires", "ensures":
			if cur == nil {
				return nil, fmt.Errorf("%s:%d: %s outside contract", path, rc.line, kw)
			}
			c, err := mkClause(kw, rest, rc.line)
			if err != nil {
				return nil, err
			}
			if kw == "requires" {
				cur.Requires = append(cur.Requires, c)
			} else {
				cur.Ensures = append(cur.Ensures, c)
			}
		case "let":
			i := strings.Index(rest, "=")
			if i < 0 || cur == nil {
				return nil, fmt.Errorf("%s:%d: bad let", path, rc.line)
			}
			e, err := parseExpr(rest[i+1:])
			if err != nil {
				return nil, fmt.Errorf("%s:%d: %v", path, rc.line, err)
			}
			cur.Lets = append(cur.Lets, Let{strings.TrimSpace(rest[:i]), e, rest})
		case "modifies":
			cur.HasMod = true
			for _, m := range strings.Split(rest, ",") {
				m = strings.TrimSpace(m)
				if m != "" && m != "nothing" {
					cur.Modifies = append(cur.Modifies, m)
				}
			}
		case "decreases":
			// function-level variant (termination of recursion)
			c, err := mkClause(kw, rest, rc.line)
			if err != nil {
				return nil, err
			}
			if cur == nil {
				return nil, fmt.Errorf("%s:%d: decreases outside a function contract", path, rc.line)
			}
			cur.Decreases = c
		case "pure":
			cur.Pure = true
			cur.HasMod = true
		case "opt":
			kv := strings.SplitN(rest, "=", 2)
			if len(kv) == 2 {
				cur.Opts[strings.TrimSpace(kv[0])] = strings.TrimSpace(kv[1])
			} else {
				cur.Opts[strings.TrimSpace(rest)] = "true"
			}
		case "loop":
			// loop N: invariant E | loop N: decreases E
			i := strings.Index(rest, ":")
			if i < 0 || cur == nil {
				return nil, fmt.Errorf("%s:%d: bad loop clause", path, rc.line)
			}
			n, err := strconv.Atoi(strings.TrimSpace(rest[:i]))
			if err != nil {
				return nil, fmt.Errorf("%s:%d: bad loop ordinal", path, rc.line)
			}
			k2, r2 := splitKw(strings.TrimSpace(rest[i+1:]))
			ls := cur.Loops[n]
			if ls == nil {
				ls = &LoopSpec{}
				cur.Loops[n] = ls
			}
			if k2 == "frame" {
				// loop N: frame entry
				switch strings.TrimSpace(r2) {
				case "entry":
					ls.FrameEntry = true
				case "modifies":
					ls.FrameEntry, ls.FrameMod = true, true
				default:
					r3 := strings.TrimSpace(r2)
					if r3 == "loop" || strings.HasPrefix(r3, "loop ") {
						ls.FrameEntry, ls.FrameLoop = true, true
						for _, part := range strings.Split(strings.TrimSpace(strings.TrimPrefix(r3, "loop")), ",") {
							if part = strings.TrimSpace(part); part != "" {
								e, err := parseExpr(part)
								if err != nil {
									return nil, fmt.Errorf("%s:%d: %v", path, rc.line, err)
								}
								ls.FrameLoopX = append(ls.FrameLoopX, e)
							}
						}
						continue
					}
					return nil, fmt.Errorf("%s:%d: want `loop N: frame entry`, `frame modifies` or `frame loop [e, ...]`", path, rc.line)
				}
				continue
			}
			c, err := mkClause(k2, r2, rc.line)
			if err != nil {
				return nil, err
			}
			switch k2 {
			case "invariant":
				ls.Invariants = append(ls.Invariants, c)
			case "assume":
				ls.Assumes = append(ls.Assumes, c)
			case "exit":
				ls.Exits = append(ls.Exits, c)
			case "decreases":
				ls.Decreases = c
			default:
				return nil, fmt.Errorf("%s:%d: unknown loop clause %q", path, rc.line, k2)
			}
		case "at":
			// at call NAME#k: assert E   |  at call NAME#k: assume E
			r := strings.TrimSpace(strings.TrimPrefix(strings.TrimSpace(rest), "call"))
			i := strings.Index(r, ":")
			if i < 0 || cur == nil {
				return nil, fmt.Errorf("%s:%d: bad at-call clause", path, rc.line)
			}
			site := strings.TrimSpace(r[:i])
			ord := 1
			if j := strings.LastIndex(site, "#"); j >= 0 {
				ord, _ = strconv.Atoi(site[j+1:])
				site = site[:j]
			}
			k2, r2 := splitKw(strings.TrimSpace(r[i+1:]))
			var ac *AtCall
			for _, x := range cur.AtCalls {
				if x.Callee == site && x.Ordinal == ord {
					ac = x
				}
			}
			if ac == nil {
				ac = &AtCall{Callee: site, Ordinal: ord}
				cur.AtCalls = append(cur.AtCalls, ac)
			}
			if k2 == "ghost" {
				// at call NAME#k: ghost G(OBJ) := E — a ghost assignment executed after the call
				// returns (r / r0.. name its results); ghost state never influences the program
				j := strings.Index(r2, ":=")
				lhs := strings.TrimSpace(r2[:max(j, 0)])
				k := strings.Index(lhs, "(")
				if j < 0 || k <= 0 || !strings.HasSuffix(lhs, ")") {
					return nil, fmt.Errorf("%s:%d: bad ghost assignment (want G(obj) := expr)", path, rc.line)
				}
				obj, err := mkClause("ghost", lhs[k+1:len(lhs)-1], rc.line)
				if err != nil {
					return nil, err
				}
				val, err := mkClause("ghost", strings.TrimSpace(r2[j+2:]), rc.line)
				if err != nil {
					return nil, err
				}
				ac.Sets = append(ac.Sets, &GhostSet{Name: strings.TrimSpace(lhs[:k]), Obj: obj, Val: val})
				continue
			}
			c, err := mkClause(k2, r2, rc.line)
			if err != nil {
				return nil, err
			}
			switch k2 {
			case "assert":
				ac.Asserts = append(ac.Asserts, c)
			case "assume":
				ac.Assumes = append(ac.Assumes, c)
			default:
				return nil, fmt.Errorf("%s:%d: unknown at-call clause %q", path, rc.line, k2)
			}
		case "recv":
			// recv CHAN: assume E | recv CHAN: closed E
			i := strings.Index(rest, ":")
			if i < 0 || cur == nil {
				return nil, fmt.Errorf("%s:%d: bad recv clause", path, rc.line)
			}
			ch := strings.TrimSpace(rest[:i])
			k2, r2 := splitKw(strings.TrimSpace(rest[i+1:]))
			c, err := mkClause(k2, r2, rc.line)
			if err != nil {
				return nil, err
			}
			var rs *RecvSpec
			for _, x := range cur.Recvs {
				if x.Chan == ch {
					rs = x
				}
			}
			if rs == nil {
				rs = &RecvSpec{Chan: ch}
				cur.Recvs = append(cur.Recvs, rs)
			}
			switch k2 {
			case "assume":
				rs.Assume = append(rs.Assume, c)
			case "closed":
				rs.Closed = append(rs.Closed, c)
			default:
				return nil, fmt.Errorf("%s:%d: unknown recv clause %q", path, rc.line, k2)
			}
		case "spec":
			// spec func name(a int, b ref) int [= expr]
			r := strings.TrimSpace(rest)
			isMacro := strings.HasPrefix(r, "macro")
			r = strings.TrimSpace(strings.TrimPrefix(strings.TrimPrefix(r, "macro"), "func"))
			sf, err := parseSpecFunc(r)
			if err != nil {
				return nil, fmt.Errorf("%s:%d: %v", path, rc.line, err)
			}
			sf.Macro = isMacro
			if isMacro && sf.Body == nil {
				return nil, fmt.Errorf("%s:%d: spec macro needs a body", path, rc.line)
			}
			cf.SpecFuncs = append(cf.SpecFuncs, sf)
			curSF = sf
			cur = nil
		case "axiom":
			c, err := mkClause(kw, rest, rc.line)
			if err != nil {
				return nil, err
			}
			if curSF != nil {
				curSF.Axioms = append(curSF.Axioms, c)
			} else {
				cf.Axioms = append(cf.Axioms, c)
			}
		case "ghost":
			// ghost field name sort
			f := strings.Fields(rest)
			if len(f) != 3 || f[0] != "field" {
				return nil, fmt.Errorf("%s:%d: want `ghost field <name> <sort>`", path, rc.line)
			}
			cf.Ghosts = append(cf.Ghosts, &GhostField{f[1], f[2]})
		case "lemma":
			i := strings.Index(rest, ":")
			if i < 0 {
				return nil, fmt.Errorf("%s:%d: bad lemma", path, rc.line)
			}
			c, err := mkClause(kw, rest[i+1:], rc.line)
			if err != nil {
				return nil, err
			}
			cf.Lemmas = append(cf.Lemmas, &Lemma{Name: strings.TrimSpace(rest[:i]), C: c})
			cur = nil
			curSF = nil
		default:
			return nil, fmt.Errorf("%s:%d: unknown clause %q", path, rc.line, kw)
		}
	}
	return cf, nil
}

func splitKw(s string) (string, string) {
	s = strings.TrimSpace(s)
	i := strings.IndexAny(s, " \t")
	if i < 0 {
		return s, ""
	}
	return s[:i], strings.TrimSpace(s[i+1:])
}

func parseSpecFunc(s string) (*SpecFunc, error) {
	i := strings.Index(s, "(")
	if i < 0 {
		return nil, fmt.Errorf("bad spec func %q", s)
	}
	sf := &SpecFunc{Name: strings.TrimSpace(s[:i]), Text: s}
	j := strings.Index(s, ")")
	if j < i {
		return nil, fmt.Errorf("bad spec func %q", s)
	}
	for _, p := range strings.Split(s[i+1:j], ",") {
		f := strings.Fields(p)
		if len(f) == 0 {
			continue
		}
		qv := QVar{Name: f[0]}
		if len(f) > 1 {
			qv.Sort = f[1]
		}
		sf.Params = append(sf.Params, qv)
	}
	rest := strings.TrimSpace(s[j+1:])
	if k := strings.Index(rest, "="); k >= 0 {
		e, err := parseExpr(rest[k+1:])
		if err != nil {
			return nil, err
		}
		sf.Body = e
		rest = strings.TrimSpace(rest[:k])
	}
	sf.Ret = rest
	if sf.Ret == "" {
		sf.Ret = "bool"
	}
	return sf, nil
}

// specSort maps a spec sort name to an SMT sort.
func specSort(name string) string {
	switch name {
	case "", "int", "int64", "int32", "uint64", "uint32", "uint", "ref", "byte":
		return SInt
	case "bool":
		return SBool
	case "string", "str":
		return SStr
	case "slice":
		return SSlice
	case "real", "float64":
		return SReal
	case "intset":
		return arraySort(SInt, SBool)
	case "intmap":
		return arraySort(SInt, SInt)
	case "strset":
		return arraySort(SStr, SBool)
	}
	return name // verbatim SMT sort
}
