package main

import (
	"fmt"
	"go/constant"
	"go/types"
	"math/big"
	"strings"

	"golang.org/x/tools/go/ssa"
)

// SVal is a spec-level value: an SMT term plus, when known, its Go type.
type SVal struct {
	T   Term
	GoT types.Type
	A   *Addr
	Tup Tuple
}

type specErr struct{ msg string }

func (e specErr) Error() string { return e.msg }

func specFail(f string, a ...interface{}) { panic(specErr{fmt.Sprintf(f, a...)}) }

type specEnv struct {
	f       *frame
	c       *Ctx
	heap    *heapState
	old     *heapState
	vars    map[string]SVal
	resolve func(name string) (SVal, bool)
	pkg     *types.Package
	qn      int
	at      *ssa.BasicBlock // program point for local-variable resolution (nil: anywhere)
}

func (f *frame) baseEnv(heap *heapState) *specEnv {
	env := &specEnv{f: f, c: f.c, heap: heap, old: f.entry, vars: map[string]SVal{}}
	env.resolve = func(name string) (SVal, bool) { return f.addrVar(name, env.heap) }
	if f.fn.Pkg != nil {
		env.pkg = f.fn.Pkg.Pkg
	}
	for k, v := range f.params {
		env.vars[k] = v
	}
	for k, v := range f.lets {
		env.vars[k] = v
	}
	return env
}

func (env *specEnv) child() *specEnv {
	n := *env
	n.vars = cloneMap(env.vars)
	return &n
}

func (f *frame) evalClause(env *specEnv, cl *Clause) Term {
	v := f.evalSpec(env, cl.E)
	if v.T.Sort != SBool {
		specFail("%s:%d: clause is not boolean: %s", cl.File, cl.Line, cl.Text)
	}
	return v.T
}

// assumeClause assumes a clause conjunct by conjunct (macros expanded first), so that every
// assumed formula is either quantifier free or of the shape guards => forall — the shapes the
// instantiation-based prover can use.
func (f *frame) assumeClause(env *specEnv, cl *Clause, guard Term) {
	for _, p := range splitExpr(expandMacros(cl.E)) {
		v := env.eval(p)
		if v.T.Sort != SBool {
			specFail("%s:%d: clause is not boolean: %s", cl.File, cl.Line, cl.Text)
		}
		f.c.assume(implies(guard, v.T))
	}
}

func (f *frame) evalSpec(env *specEnv, e Expr) SVal {
	return env.eval(e)
}

func isPtrToStruct(t types.Type) (types.Type, *types.Struct, bool) {
	if t == nil {
		return nil, nil, false
	}
	if p, ok := types.Unalias(t).Underlying().(*types.Pointer); ok {
		if st, ok := structOf(p.Elem()); ok {
			return p.Elem(), st, true
		}
	}
	return nil, nil, false
}

func findField(st *types.Struct, name string) int {
	for i := 0; i < st.NumFields(); i++ {
		if st.Field(i).Name() == name {
			return i
		}
	}
	return -1
}

// eval evaluates a spec expression; long closed integer terms are given a name (define-fun) so
// that formulas — and the index terms the instantiation prover collects — stay small.
func (env *specEnv) eval(e Expr) SVal {
	v := env.eval0(e)
	c := env.c
	if v.T.Sort == SInt && len(v.T.S) > 150 && !strings.Contains(v.T.S, "|q ") && !strings.Contains(v.T.S, "|sp ") {
		if c.named == nil {
			c.named = map[string]Term{}
		}
		if t, ok := c.named[v.T.S]; ok {
			v.T = t
		} else {
			t := c.name("sx", v.T)
			c.named[v.T.S] = t
			v.T = t
		}
	}
	return v
}

func (env *specEnv) eval0(e Expr) SVal {
	c := env.c
	switch x := e.(type) {
	case *EInt:
		return SVal{T: bigLit(x.V)}
	case *EBool:
		if x.V {
			return SVal{T: tTrue}
		}
		return SVal{T: tFalse}
	case *EReal:
		return SVal{T: realLit(x.S), GoT: types.Typ[types.Float64]}
	case *EStr:
		return SVal{T: c.strLit(x.V)}
	case *ENil:
		return SVal{T: tNil}
	case *EIdent:
		if _, isParam := env.f.params[x.Name]; isParam && env.resolve != nil && env.f.top {
			// a parameter that is reassigned in the body: at a program point the name denotes the
			// current value of the variable (old(x) / lets give access to the entry value)
			if pv, same := env.vars[x.Name]; same && pv.T.S == env.f.params[x.Name].T.S {
				if v, ok := env.resolve(x.Name); ok {
					return v
				}
			}
		}
		if v, ok := env.vars[x.Name]; ok {
			return v
		}
		if env.resolve != nil {
			if v, ok := env.resolve(x.Name); ok {
				return v
			}
		}
		if env.pkg != nil {
			if obj := env.pkg.Scope().Lookup(x.Name); obj != nil {
				if k, ok := obj.(*types.Const); ok {
					return env.constVal(k)
				}
				if g, ok := obj.(*types.Var); ok {
					if sp := c.eng.pkgs[env.pkg.Path()]; sp != nil {
						if sg, ok := sp.Members[x.Name].(*ssa.Global); ok && c.eng.immutableGlobal(sg) {
							return SVal{T: c.globalValue(sg, g.Type()), GoT: g.Type()}
						}
					}
					// package-level variable: value of the global cell
					name := quote("glob " + env.pkg.Path() + "." + x.Name)
					c.decl("glob "+name, fmt.Sprintf("(declare-const %s Int)", name))
					c.decl("globpos "+name, fmt.Sprintf("(assert (> %s 0))", name))
					a := env.f.addrOfPtr(Term{name, SInt}, types.NewPointer(g.Type()))
					return SVal{T: env.f.load(env.heap, a), GoT: g.Type()}
				}
			}
		}
		if sf := c.eng.specFuncs[x.Name]; sf != nil && len(sf.Params) == 0 {
			return env.applySpecFunc(sf, nil)
		}
		if v, ok := env.uncapturedOuter(x.Name); ok {
			return v
		}
		specFail("unknown identifier %q in specification", x.Name)
	case *EUnary:
		v := env.eval(x.X)
		if x.Op == "!" {
			return SVal{T: not(v.T)}
		}
		if v.T.Sort == SReal {
			return SVal{T: mk(SReal, "-", v.T), GoT: v.GoT}
		}
		return SVal{T: mk(SInt, "-", v.T), GoT: v.GoT}
	case *EBinary:
		return env.evalBinary(x)
	case *ESel:
		return env.evalSel(x)
	case *EIndex:
		return env.evalIndex(x)
	case *ECall:
		return env.evalCall(x)
	case *EMethod:
		return env.evalMethod(x)
	case *EQuant:
		n := env.child()
		var binds []string
		var guards []Term
		for _, qv := range x.Vars {
			env.qn++
			c.counter["q"]++
			name := quote(fmt.Sprintf("q %s %d", qv.Name, c.counter["q"]))
			srt := specSort(qv.Sort)
			got := specGoType(qv.Sort)
			if got == nil && qv.Sort != "" && srt == qv.Sort {
				// a Go type name ("labels.Labels", "*labels.Matcher", "Client")
				if t := c.eng.lookupType(env.pkg, qv.Sort); t != nil {
					got = t
					srt = c.sortOf(t)
				}
			}
			binds = append(binds, fmt.Sprintf("(%s %s)", name, srt))
			n.vars[qv.Name] = SVal{T: Term{name, srt}, GoT: got}
		}
		body := n.eval(x.Body)
		_ = guards
		op := "forall"
		if !x.Forall {
			op = "exists"
		}
		bs := body.T.S
		if len(x.Triggers) > 0 {
			var ts []string
			for _, t := range x.Triggers {
				ts = append(ts, n.eval(t).T.S)
			}
			bs = fmt.Sprintf("(! %s :pattern (%s))", bs, strings.Join(ts, " "))
		}
		return SVal{T: Term{fmt.Sprintf("(%s (%s) %s)", op, strings.Join(binds, " "), bs), SBool}}
	}
	specFail("cannot evaluate spec expression %T", e)
	return SVal{}
}

func specGoType(sort string) types.Type {
	switch sort {
	case "", "int":
		return types.Typ[types.Int]
	case "int64":
		return types.Typ[types.Int64]
	case "uint64":
		return types.Typ[types.Uint64]
	case "string", "str":
		return types.Typ[types.String]
	case "bool":
		return types.Typ[types.Bool]
	}
	return nil
}

func (env *specEnv) constVal(k *types.Const) SVal {
	v := k.Val()
	switch v.Kind() {
	case constant.Int:
		n, _ := new(big.Int).SetString(v.ExactString(), 10)
		return SVal{T: bigLit(n), GoT: k.Type()}
	case constant.Bool:
		if constant.BoolVal(v) {
			return SVal{T: tTrue}
		}
		return SVal{T: tFalse}
	case constant.String:
		return SVal{T: env.c.strLit(constant.StringVal(v)), GoT: k.Type()}
	}
	specFail("constant %s not supported in specs", k.Name())
	return SVal{}
}

func (env *specEnv) evalBinary(x *EBinary) SVal {
	a := env.eval(x.X)
	// short forms
	b := env.eval(x.Y)
	isReal := a.T.Sort == SReal || b.T.Sort == SReal
	toReal := func(t Term) Term {
		if t.Sort == SInt {
			return mk(SReal, "to_real", t)
		}
		return t
	}
	if isReal {
		a.T, b.T = toReal(a.T), toReal(b.T)
	}
	numSort := SInt
	if isReal {
		numSort = SReal
	}
	switch x.Op {
	case "&&":
		return SVal{T: and(a.T, b.T)}
	case "||":
		return SVal{T: or(a.T, b.T)}
	case "==>":
		return SVal{T: implies(a.T, b.T)}
	case "<==>":
		return SVal{T: eq(a.T, b.T)}
	case "==":
		return SVal{T: env.specEq(a, b)}
	case "!=":
		return SVal{T: not(env.specEq(a, b))}
	case "<":
		if a.T.Sort == SStr {
			return SVal{T: mk(SBool, "strlt", a.T, b.T)}
		}
		return SVal{T: lt(a.T, b.T)}
	case "<=":
		if a.T.Sort == SStr {
			return SVal{T: not(mk(SBool, "strlt", b.T, a.T))}
		}
		return SVal{T: le(a.T, b.T)}
	case ">":
		if a.T.Sort == SStr {
			return SVal{T: mk(SBool, "strlt", b.T, a.T)}
		}
		return SVal{T: gt(a.T, b.T)}
	case ">=":
		if a.T.Sort == SStr {
			return SVal{T: not(mk(SBool, "strlt", a.T, b.T))}
		}
		return SVal{T: ge(a.T, b.T)}
	case "+":
		if a.T.Sort == SStr {
			return SVal{T: mk(SStr, "strcat", a.T, b.T), GoT: a.GoT}
		}
		return SVal{T: mk(numSort, "+", a.T, b.T), GoT: a.GoT}
	case "-":
		return SVal{T: mk(numSort, "-", a.T, b.T), GoT: a.GoT}
	case "*":
		return SVal{T: mk(numSort, "*", a.T, b.T), GoT: a.GoT}
	case "/":
		if isReal {
			return SVal{T: mk(SReal, "/", a.T, b.T), GoT: a.GoT}
		}
		return SVal{T: mk(SInt, "tdiv", a.T, b.T), GoT: a.GoT}
	case "%":
		return SVal{T: mk(SInt, "tmod", a.T, b.T), GoT: a.GoT}
	case "<<":
		if n, ok := smallConst(b.T); ok && n < 200 {
			p := new(big.Int).Lsh(big.NewInt(1), uint(n))
			if m, ok := smallConst(a.T); ok {
				return SVal{T: bigLit(new(big.Int).Mul(big.NewInt(m), p))}
			}
			return SVal{T: mul(a.T, bigLit(p)), GoT: a.GoT}
		}
	case ">>":
		if n, ok := smallConst(b.T); ok && n < 200 {
			p := new(big.Int).Lsh(big.NewInt(1), uint(n))
			return SVal{T: mk(SInt, "div", a.T, bigLit(p)), GoT: a.GoT}
		}
	}
	specFail("unsupported spec operator %q", x.Op)
	return SVal{}
}

func (env *specEnv) specEq(a, b SVal) Term {
	// x % m == 0 is divisibility: (mod x m) = 0 (same truth value as Go's truncated remainder
	// for m != 0, and much easier for the solvers than the sign-case definition of tmod)
	if strings.HasPrefix(a.T.S, "(tmod ") && b.T.S == "0" {
		body := a.T.S[len("(tmod ") : len(a.T.S)-1]
		i := sexpEnd(body, 0)
		return Term{"(= (mod " + strings.TrimSpace(body[:i]) + " " + strings.TrimSpace(body[i:]) + ") 0)", SBool}
	}
	if a.T.Sort == SSlice && b.T.S == "0" {
		return eq(sBase(a.T), tZero)
	}
	if b.T.Sort == SSlice && a.T.S == "0" {
		return eq(sBase(b.T), tZero)
	}
	if a.T.Sort != b.T.Sort {
		specFail("comparison of different sorts %s (%s) and %s (%s)", a.T.S, a.T.Sort, b.T.S, b.T.Sort)
	}
	return eq(a.T, b.T)
}

func (env *specEnv) evalSel(x *ESel) SVal {
	c := env.c
	v := env.eval(x.X)
	// ghost field? (a real field of the value's struct type with the same name wins)
	realField := false
	if v.GoT != nil {
		if _, st, ok := isPtrToStruct(v.GoT); ok {
			if i, _ := findFieldPath(st, x.Name); i >= 0 {
				realField = true
			}
		} else if st, ok := structOf(v.GoT); ok {
			if i, _ := findFieldPath(st, x.Name); i >= 0 {
				realField = true
			}
		}
	}
	if g := c.eng.ghosts[x.Name]; g != nil && !realField {
		arr := c.heapGet(env.heap, "G "+g.Name, arraySort(SInt, specSort(g.Sort)))
		return SVal{T: sel(arr, v.T), GoT: specGoType(g.Sort)}
	}
	if v.GoT == nil {
		specFail("selector .%s on a value of unknown Go type", x.Name)
	}
	if pt, st, ok := isPtrToStruct(v.GoT); ok {
		i, path := findFieldPath(st, x.Name)
		if i < 0 {
			specFail("type %s has no field %s", pt, x.Name)
		}
		a := &Addr{Kind: aStruct, Base: v.T, Typ: pt}
		if v.A != nil {
			a = v.A
		}
		for _, p := range path {
			a = a.with(pstep{field: p})
		}
		t := a.target()
		if _, isStruct := structOf(t); isStruct {
			// keep the address so that nested selections resolve
			return SVal{T: env.f.load(env.heap, a), GoT: t, A: nil}
		}
		lv := env.f.load(env.heap, a)
		if !strings.Contains(lv.S, "|q ") && !strings.Contains(lv.S, "|sp ") {
			// the value of a typed location satisfies the invariant of its type (0 <= len <= cap, ...)
			env.c.assume(env.c.typeInv(lv, t, env.c.nalloc(env.heap), 0))
		}
		return SVal{T: lv, GoT: t}
	}
	if st, ok := structOf(v.GoT); ok {
		i, path := findFieldPath(st, x.Name)
		if i < 0 {
			specFail("type %s has no field %s", v.GoT, x.Name)
		}
		t := v.GoT
		cur := v.T
		for _, p := range path {
			s, _ := structOf(t)
			cur = c.structGet(t, s, p, cur)
			t = s.Field(p).Type()
		}
		return SVal{T: cur, GoT: t}
	}
	specFail("selector .%s on non-struct type %s", x.Name, v.GoT)
	return SVal{}
}

// findFieldPath finds a (possibly promoted) field.
func findFieldPath(st *types.Struct, name string) (int, []int) {
	if i := findField(st, name); i >= 0 {
		return i, []int{i}
	}
	for i := 0; i < st.NumFields(); i++ {
		f := st.Field(i)
		if !f.Embedded() {
			continue
		}
		if inner, ok := structOf(f.Type()); ok {
			if j, p := findFieldPath(inner, name); j >= 0 {
				return j, append([]int{i}, p...)
			}
		}
	}
	return -1, nil
}

func (env *specEnv) evalIndex(x *EIndex) SVal {
	c := env.c
	v := env.eval(x.X)
	i := env.eval(x.I)
	if v.GoT != nil {
		switch t := types.Unalias(v.GoT).Underlying().(type) {
		case *types.Slice:
			arr := c.heapGet(env.heap, elemKey(t.Elem()), c.elemSort(t.Elem()))
			return SVal{T: sel(sel(arr, sBase(v.T)), add(sOff(v.T), i.T)), GoT: t.Elem()}
		case *types.Array:
			return SVal{T: sel(v.T, i.T), GoT: t.Elem()}
		case *types.Map:
			_, val, _, mt := env.f.mapArraysIn(v.GoT, env.heap)
			return SVal{T: sel(sel(val, v.T), i.T), GoT: mt.Elem()}
		case *types.Basic:
			if t.Info()&types.IsString != 0 {
				return SVal{T: mk(SInt, "strat", v.T, i.T), GoT: types.Typ[types.Uint8]}
			}
		}
	}
	if strings.HasPrefix(v.T.Sort, "(Array ") {
		return SVal{T: sel(v.T, i.T)}
	}
	specFail("indexing a value of sort %s", v.T.Sort)
	return SVal{}
}

func (f *frame) mapArraysIn(t types.Type, h *heapState) (dom, val, ln Term, mt *types.Map) {
	return f.mapArrays(t, h)
}

func (env *specEnv) evalCall(x *ECall) SVal {
	c := env.c
	arg := func(i int) SVal {
		if i >= len(x.Args) {
			specFail("%s: missing argument %d", x.Fun, i)
		}
		return env.eval(x.Args[i])
	}
	switch x.Fun {
	case "visited":
		// visited(N, k): key k was already produced by the map iteration of loop N
		n, ok := x.Args[0].(*EInt)
		if !ok || len(x.Args) != 2 {
			specFail("visited(loop ordinal, key)")
		}
		for _, l2 := range env.f.loops {
			if int64(l2.ordinal) != n.V.Int64() {
				continue
			}
			for _, in := range l2.header.Instrs {
				if nx, ok := in.(*ssa.Next); ok {
					if rg, ok := nx.Iter.(*ssa.Range); ok {
						if mt, ok := types.Unalias(rg.X.Type()).Underlying().(*types.Map); ok {
							ks := c.sortOf(mt.Key())
							vis := c.heapGet(env.heap, "G iter "+rg.Name(), arraySort(ks, SBool))
							return SVal{T: sel(vis, arg(1).T)}
						}
					}
				}
			}
		}
		specFail("visited(%d, k): loop %d is not a range over a map", n.V.Int64(), n.V.Int64())
	case "nosplit":
		// identity; tells the clause splitter to keep the argument as one obligation
		return arg(0)
	case "old":
		n := env.child()
		n.heap = env.old
		n.resolve = env.resolve
		return n.eval(x.Args[0])
	case "local":
		// local(x): the value of a single-assignment local variable of the function
		id, ok := x.Args[0].(*EIdent)
		if !ok {
			specFail("local(x) needs an identifier")
		}
		root := c.rootFrame
		if v, ok := root.addrVar(id.Name, env.heap); ok {
			return v
		}
		found, ok := root.lookupLocal(id.Name, env.at)
		if !ok {
			// not assigned on the paths to this point: an arbitrary value (the clause has to hold for it)
			refs := root.debugRefs[id.Name]
			if len(refs) == 0 {
				specFail("local(%s): no such local variable", id.Name)
			}
			t := refs[0].X.Type()
			return root.sval(root.havocVal(t, "local."+id.Name, env.heap), t)
		}
		return root.sval(root.get(found), found.Type())
	case "len":
		v := arg(0)
		switch v.T.Sort {
		case SSlice:
			return SVal{T: sLen(v.T), GoT: types.Typ[types.Int]}
		case SStr:
			return SVal{T: mk(SInt, "strlen", v.T), GoT: types.Typ[types.Int]}
		}
		if v.GoT != nil {
			switch t := types.Unalias(v.GoT).Underlying().(type) {
			case *types.Map:
				_, _, ln, _ := env.f.mapArrays(v.GoT, env.heap)
				return SVal{T: ite(eq(v.T, tNil), tZero, sel(ln, v.T)), GoT: types.Typ[types.Int]}
			case *types.Array:
				return SVal{T: intLit(t.Len())}
			}
		}
		specFail("len of sort %s", v.T.Sort)
	case "cap":
		v := arg(0)
		if v.T.Sort == SSlice {
			return SVal{T: sCap(v.T), GoT: types.Typ[types.Int]}
		}
		specFail("cap of sort %s", v.T.Sort)
	case "maxfloat64":
		n, _ := new(big.Float).SetFloat64(1.79769313486231570814527423731704356798070e+308).Int(nil)
		return SVal{T: realLit(n.String() + ".0"), GoT: types.Typ[types.Float64]}
	case "deref":
		// deref(p): the value a pointer to a non-struct cell points to (*p)
		v := arg(0)
		pt, ok := types.Unalias(v.GoT).Underlying().(*types.Pointer)
		if v.GoT == nil || !ok {
			specFail("deref of a non-pointer")
		}
		a := env.f.addrOfPtr(v.T, v.GoT)
		return SVal{T: env.f.load(env.heap, a), GoT: pt.Elem()}
	case "base":
		return SVal{T: sBase(arg(0).T)}
	case "off":
		return SVal{T: sOff(arg(0).T)}
	case "typeis":
		v := arg(0)
		name, ok := x.Args[1].(*EStr)
		if !ok {
			specFail("typeis(x, \"T\") needs a string literal")
		}
		t := c.eng.lookupType(env.pkg, name.V)
		if t == nil {
			specFail("typeis: unknown type %q", name.V)
		}
		return SVal{T: and(not(eq(v.T, tNil)), eq(mk(SInt, "typeof", v.T), c.typeID(t)))}
	case "unbox":
		v := arg(0)
		name, ok := x.Args[1].(*EStr)
		if !ok {
			specFail("unbox(x, \"T\") needs a string literal")
		}
		t := c.eng.lookupType(env.pkg, name.V)
		if t == nil {
			specFail("unbox: unknown type %q", name.V)
		}
		s := c.sortOf(t)
		unbox := quote("unbox " + typeKey(t))
		c.decl("unbox "+unbox, fmt.Sprintf("(declare-fun %s (Int) %s)", unbox, s))
		return SVal{T: mk(s, unbox, v.T), GoT: t}
	case "cast":
		// cast(x, "T"): reinterpret the Go type of a reference (after typeis)
		v := arg(0)
		name := x.Args[1].(*EStr)
		t := c.eng.lookupType(env.pkg, name.V)
		if t == nil {
			specFail("cast: unknown type %q", name.V)
		}
		switch types.Unalias(t).Underlying().(type) {
		case *types.Pointer, *types.Map, *types.Chan, *types.Signature, *types.Interface:
			return SVal{T: v.T, GoT: t}
		}
		// a value type stored in an interface is boxed (instr.go makeInterface): unbox it
		srt := c.sortOf(t)
		if v.T.Sort != SInt || srt == SInt {
			return SVal{T: v.T, GoT: t} // already a value of that sort (e.g. a ghost field holding a slice)
		}
		unbox := quote("unbox " + typeKey(t))
		box := quote("box " + typeKey(t))
		c.decl("box "+box, fmt.Sprintf("(declare-fun %s (%s) Int)", box, srt))
		c.decl("unbox "+unbox, fmt.Sprintf("(declare-fun %s (Int) %s)", unbox, srt))
		return SVal{T: mk(srt, unbox, v.T), GoT: t}
	case "int", "int64", "int32", "uint64", "uint32", "uint", "uint8", "byte", "int8", "int16", "uint16":
		v := arg(0)
		if v.T.Sort == SReal {
			return SVal{T: mk(SInt, "to_int", v.T), GoT: specGoType(x.Fun)}
		}
		return SVal{T: v.T, GoT: specGoType(x.Fun)}
	case "float64", "real":
		v := arg(0)
		if v.T.Sort == SInt {
			return SVal{T: mk(SReal, "to_real", v.T)}
		}
		return v
	case "wrap64":
		return SVal{T: mk(SInt, "fullS64", arg(0).T)}
	case "wrapu64":
		return SVal{T: mk(SInt, "fullU64", arg(0).T)}
	case "ite":
		a, b := arg(1), arg(2)
		return SVal{T: ite(arg(0).T, a.T, b.T), GoT: a.GoT}
	case "min":
		return SVal{T: mk(SInt, "imin", arg(0).T, arg(1).T)}
	case "max":
		return SVal{T: mk(SInt, "imax", arg(0).T, arg(1).T)}
	case "abs":
		v := arg(0)
		return SVal{T: ite(ge(v.T, tZero), v.T, mk(SInt, "-", v.T))}
	case "indom":
		m, k := arg(0), arg(1)
		dom, _, _, _ := env.f.mapArrays(m.GoT, env.heap)
		return SVal{T: and(not(eq(m.T, tNil)), sel(sel(dom, m.T), k.T))}
	case "addrof":
		// the reference of an address-taken local variable (e.g. a local array that is sliced)
		id, ok := x.Args[0].(*EIdent)
		if !ok {
			specFail("addrof wants the name of a local variable")
		}
		a, ok := env.f.debugAddr[id.Name]
		if !ok {
			specFail("addrof(%s): not an address-taken local", id.Name)
		}
		t, ok := env.f.vals[a].(Term)
		if !ok {
			specFail("addrof(%s): the variable has no reference value here", id.Name)
		}
		return SVal{T: t}
	case "fresh":
		// allocated after function entry
		v := arg(0)
		return SVal{T: lt(v.T, mk(SInt, "-", c.nalloc(env.old)))}
	case "allocated":
		v := arg(0)
		return SVal{T: ge(v.T, mk(SInt, "-", c.nalloc(env.heap)))}
	case "fref":
		return SVal{T: mk(SInt, "fref", arg(0).T, arg(1).T)}
	case "select":
		a := arg(0)
		return SVal{T: sel(a.T, arg(1).T)}
	case "store":
		a := arg(0)
		return SVal{T: store(a.T, arg(1).T, arg(2).T)}
	}
	if sf := c.eng.specFuncs[x.Fun]; sf != nil {
		var args []SVal
		for i := range x.Args {
			args = append(args, arg(i))
		}
		return env.applySpecFunc(sf, args)
	}
	if x.Fun == "result" && len(x.Args) == 2 {
		fn, args, sig := env.pureCallParts(x.Args[0])
		idx, ok := x.Args[1].(*EInt)
		if !ok || int(idx.V.Int64()) >= sig.Results().Len() {
			specFail("result(call, i): bad result index")
		}
		i := int(idx.V.Int64())
		rt := sig.Results().At(i).Type()
		return SVal{T: c.pureResultApp(fn, args, rt, i, sig.Results().Len()), GoT: rt}
	}
	// a pure function of the package under contract, used as a spec-level function
	if env.pkg != nil {
		if _, ok := env.pkg.Scope().Lookup(x.Fun).(*types.Func); ok {
			fn, args, sig := env.pureCallParts(x)
			if sig.Results().Len() != 1 {
				specFail("%s has %d results: use result(%s(...), i)", x.Fun, sig.Results().Len(), x.Fun)
			}
			rt := sig.Results().At(0).Type()
			return SVal{T: c.pureMethodApp(fn, args, rt), GoT: rt}
		}
	}
	specFail("unknown spec function %q", x.Fun)
	return SVal{}
}

func (env *specEnv) applySpecFunc(sf *SpecFunc, args []SVal) SVal {
	c := env.c
	if sf.Macro {
		if len(args) != len(sf.Params) {
			specFail("spec macro %s: want %d arguments, got %d", sf.Name, len(sf.Params), len(args))
		}
		sub := env.child()
		for i, p := range sf.Params {
			sub.vars[p.Name] = args[i]
		}
		return sub.eval(sf.Body)
	}
	c.eng.declareSpecFunc(c, env, sf)
	if len(args) != len(sf.Params) {
		specFail("spec func %s: want %d arguments, got %d", sf.Name, len(sf.Params), len(args))
	}
	ts := make([]Term, len(args))
	for i, a := range args {
		ts[i] = a.T
		if want, _ := c.resolveSort(env.pkg, sf.Params[i].Sort); want != a.T.Sort {
			specFail("spec func %s: argument %d has sort %s, want %s", sf.Name, i, a.T.Sort, want)
		}
	}
	name := quote("spec " + sf.Name)
	rs, rt := c.resolveSort(env.pkg, sf.Ret)
	if len(ts) == 0 {
		return SVal{T: Term{name, rs}, GoT: rt}
	}
	return SVal{T: mk(rs, name, ts...), GoT: rt}
}

// evalMethod: x.M(args) — a pure method of an external / interface type, modelled as an
// uninterpreted function of the receiver and the arguments (the same function symbol the
// executor uses for calls to methods declared `pure` in an extern contract).
func (env *specEnv) evalMethod(x *EMethod) SVal {
	c := env.c
	fn, args, sig := env.pureCallParts(x)
	if sig.Results().Len() != 1 {
		specFail("pure method %s must have exactly one result", x.Name)
	}
	rt := sig.Results().At(0).Type()
	app := c.pureMethodApp(fn, args, rt)
	// what the extern contract promises about applications of this function: stated once, as an
	// axiom over all arguments with the application as trigger (the executor assumes it per call in
	// the code; an application that only a specification mentions needs it as well)
	if ct := c.eng.contracts[fn.FullName()]; ct != nil && ct.Pure && len(ct.Ensures) > 0 && len(ct.Params) == len(args) {
		key := "pure-ensures " + fn.FullName()
		if !c.declSeen[key] {
			c.declSeen[key] = true
			sub := &specEnv{f: env.f, c: c, heap: env.heap, old: env.old, vars: map[string]SVal{}, pkg: env.pkg}
			var binders []string
			var bargs []Term
			for i, n := range ct.Params {
				var gt types.Type
				if sig.Recv() != nil {
					if i == 0 {
						gt = sig.Recv().Type()
					} else if i-1 < sig.Params().Len() {
						gt = sig.Params().At(i - 1).Type()
					}
				} else if i < sig.Params().Len() {
					gt = sig.Params().At(i).Type()
				}
				bn := quote(fmt.Sprintf("q %s ax%d", n, i))
				bt := Term{bn, args[i].Sort}
				binders = append(binders, fmt.Sprintf("(%s %s)", bn, args[i].Sort))
				bargs = append(bargs, bt)
				sub.vars[n] = SVal{T: bt, GoT: gt}
			}
			bapp := c.pureMethodApp(fn, bargs, rt)
			sub.vars["r"] = SVal{T: bapp, GoT: rt}
			sub.vars["r0"] = sub.vars["r"]
			var posts []string
			ok := true
			func() {
				defer func() {
					if r := recover(); r != nil {
						ok = false
					}
				}()
				for _, en := range ct.Ensures {
					posts = append(posts, sub.eval(en.E).T.S)
				}
			}()
			if ok && len(posts) > 0 {
				// kept apart from the declarations: only the instantiation stage uses it (ground instances
				// where an application occurs); as a quantified axiom over array-sorted arguments it made
				// the solvers answer `unknown` on queries that do not need it
				c.instAxioms = append(c.instAxioms, fmt.Sprintf("(assert (forall (%s) (! (and %s true) :pattern (%s))))", strings.Join(binders, " "), strings.Join(posts, " "), bapp.S))
			}
		}
	}
	return SVal{T: app, GoT: rt}
}

// pureCallParts resolves a spec-level call of a pure method (x.M(args)) or of a pure function of
// the package (F(args)) to its function object and argument terms.
func (env *specEnv) pureCallParts(e Expr) (*types.Func, []Term, *types.Signature) {
	switch x := e.(type) {
	case *EMethod:
		// pkg.F(args): a pure function of an imported package
		if id, ok := x.X.(*EIdent); ok && env.pkg != nil {
			if _, isVar := env.vars[id.Name]; !isVar {
				for _, imp := range env.pkg.Imports() {
					if imp.Name() != id.Name {
						continue
					}
					if fn, ok := imp.Scope().Lookup(x.Name).(*types.Func); ok {
						if ct := env.c.eng.contracts[fn.FullName()]; ct == nil || !ct.Pure {
							specFail("%s.%s is used as a spec function but has no `pure` extern contract", id.Name, x.Name)
						}
						var args []Term
						for _, a := range x.Args {
							args = append(args, env.eval(a).T)
						}
						return fn, args, fn.Type().(*types.Signature)
					}
				}
			}
		}
		recv := env.eval(x.X)
		if recv.GoT == nil {
			specFail("method call .%s() on a value of unknown Go type", x.Name)
		}
		obj, _, _ := types.LookupFieldOrMethod(recv.GoT, true, env.pkg, x.Name)
		fn, ok := obj.(*types.Func)
		if !ok {
			specFail("type %s has no method %s", recv.GoT, x.Name)
		}
		args := []Term{recv.T}
		for _, a := range x.Args {
			args = append(args, env.eval(a).T)
		}
		return fn, args, fn.Type().(*types.Signature)
	case *ECall:
		if env.pkg != nil {
			if fn, ok := env.pkg.Scope().Lookup(x.Fun).(*types.Func); ok {
				key := env.pkg.Path() + "." + x.Fun
				if ct := env.c.eng.contracts[key]; ct == nil || !ct.Pure {
					specFail("%s is used as a spec function but has no `pure` contract", x.Fun)
				}
				var args []Term
				for _, a := range x.Args {
					args = append(args, env.eval(a).T)
				}
				return fn, args, fn.Type().(*types.Signature)
			}
		}
	}
	specFail("result(call, i): call must be x.M(args) or F(args) of a pure function")
	return nil, nil, nil
}

// pureResultApp: i-th result of a pure function with n results.
func (c *Ctx) pureResultApp(fn *types.Func, args []Term, rt types.Type, i, n int) Term {
	if n == 1 {
		return c.pureMethodApp(fn, args, rt)
	}
	name := quote(fmt.Sprintf("pure %s#%d", fn.FullName(), i))
	var as []string
	for _, a := range args {
		as = append(as, a.Sort)
	}
	rs := c.sortOf(rt)
	c.decl("pure "+name, fmt.Sprintf("(declare-fun %s (%s) %s)", name, strings.Join(as, " "), rs))
	return mk(rs, name, args...)
}

// pureMethodApp builds the application of the uninterpreted function standing for a
// pure method.
func (c *Ctx) pureMethodApp(fn *types.Func, args []Term, rt types.Type) Term {
	name := quote("pure " + fn.FullName())
	var as []string
	for _, a := range args {
		as = append(as, a.Sort)
	}
	rs := c.sortOf(rt)
	c.decl("pure "+name, fmt.Sprintf("(declare-fun %s (%s) %s)", name, strings.Join(as, " "), rs))
	return mk(rs, name, args...)
}
