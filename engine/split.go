package main

import (
	"fmt"
	"go/token"
	"go/types"
	"strings"

	"golang.org/x/tools/go/ssa"
)

// splitExpr splits a clause into its conjuncts: A && B, G ==> (A && B), forall x :: (A && B).
// Each conjunct becomes its own obligation (smaller goals, failures pinned to a conjunct).
func splitExpr(e Expr) []Expr {
	switch x := e.(type) {
	case *ECall:
		// a boolean ite(c, A, B) at clause level: c ==> A and !c ==> B
		if x.Fun == "ite" && len(x.Args) == 3 {
			var out []Expr
			for _, r := range splitExpr(x.Args[1]) {
				out = append(out, &EBinary{"==>", x.Args[0], r})
			}
			for _, r := range splitExpr(x.Args[2]) {
				out = append(out, &EBinary{"==>", &EUnary{"!", x.Args[0]}, r})
			}
			return out
		}
	case *EBinary:
		switch x.Op {
		case "&&":
			return append(splitExpr(x.X), splitExpr(x.Y)...)
		case "==>":
			var out []Expr
			for _, r := range splitExpr(x.Y) {
				out = append(out, &EBinary{"==>", x.X, r})
			}
			return out
		}
	case *EQuant:
		if x.Forall {
			var out []Expr
			for _, b := range splitExpr(x.Body) {
				out = append(out, &EQuant{Forall: true, Vars: x.Vars, Body: b, Triggers: x.Triggers})
			}
			return out
		}
	}
	return []Expr{e}
}

// obligeClause creates one obligation per conjunct of a clause and returns the whole goal.
func (f *frame) obligeClause(kind, name string, env *specEnv, cl *Clause, guard Term, pos token.Position, models bool) Term {
	parts := splitExpr(expandMacros(cl.E))
	var all []Term
	for i, p := range parts {
		v := env.eval(p)
		if v.T.Sort != SBool {
			specFail("%s:%d: clause is not boolean: %s", cl.File, cl.Line, cl.Text)
		}
		n := name
		if len(parts) > 1 {
			n = fmt.Sprintf("%s.c%d", name, i+1)
		}
		ob := f.c.oblige(kind, n, guard, v.T, pos, cl.Text)
		if models {
			ob.Models = f.c.rootFrame.modelQueries()
		}
		all = append(all, v.T)
	}
	return and(all...)
}

// lookupLocal resolves a source-level local variable name at a program point: among the recorded
// uses/definitions of the variable whose block dominates `at`, the one closest to `at` wins (the
// deepest dominator, the latest in its block). With at == nil the last recorded one wins.
func (f *frame) lookupLocal(name string, at *ssa.BasicBlock) (ssa.Value, bool) {
	return f.lookupLocalFiltered(name, at, nil)
}

// lookupLocalFiltered is lookupLocal ignoring the recorded uses in blocks for which skip holds.
func (f *frame) lookupLocalFiltered(name string, at *ssa.BasicBlock, skip func(*ssa.BasicBlock) bool) (ssa.Value, bool) {
	var best *ssa.DebugRef
	bestDepth, bestIdx := -1, -1
	depth := func(b *ssa.BasicBlock) int {
		n := 0
		for x := b; x != nil; x = x.Idom() {
			n++
		}
		return n
	}
	for _, d := range f.debugRefs[name] {
		if _, isConst := d.X.(*ssa.Const); !isConst {
			if _, have := f.vals[d.X]; !have {
				if _, isParam := d.X.(*ssa.Parameter); !isParam {
					continue
				}
			}
		}
		b := d.Block()
		if at != nil && !b.Dominates(at) {
			continue
		}
		if skip != nil && skip(b) {
			continue
		}
		idx := 0
		for i, in := range b.Instrs {
			if in == ssa.Instruction(d) {
				idx = i
			}
		}
		dp := depth(b)
		if dp > bestDepth || (dp == bestDepth && idx > bestIdx) {
			best, bestDepth, bestIdx = d, dp, idx
		}
	}
	// a variable merged at a join has no DebugRef there: the φ-node (go/ssa records the variable's
	// name as its comment) is the reaching definition if it lies deeper on the dominator path
	var bestPhi *ssa.Phi
	for b := at; b != nil; b = b.Idom() {
		if skip != nil && skip(b) {
			continue
		}
		dp := depth(b)
		if dp <= bestDepth {
			break
		}
		for _, in := range b.Instrs {
			p, ok := in.(*ssa.Phi)
			if !ok {
				break
			}
			if p.Comment == name {
				if _, have := f.vals[p]; have {
					bestPhi = p
				}
			}
		}
		if bestPhi != nil {
			break
		}
	}
	if bestPhi != nil {
		return bestPhi, true
	}
	if best == nil {
		return nil, false
	}
	return best.X, true
}

// resolveSort maps a spec sort name or a Go type name to an SMT sort (and the Go type if any).
func (c *Ctx) resolveSort(pkg *types.Package, name string) (string, types.Type) {
	s := specSort(name)
	if t := specGoType(name); t != nil {
		return s, t
	}
	if s != name || name == "" || strings.HasPrefix(name, "(") {
		return s, nil
	}
	if t := c.eng.lookupType(pkg, name); t != nil {
		return c.sortOf(t), t
	}
	return name, nil
}
