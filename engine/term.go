package main

import (
	"fmt"
	"math/big"
	"strings"
)

// Term is an SMT-LIB term with its sort. Terms are built as strings; sharing is
// obtained by naming intermediate values with define-fun (see ctx.name).
type Term struct {
	S    string
	Sort string
}

const (
	SInt   = "Int"
	SBool  = "Bool"
	SStr   = "Str"
	SSlice = "Slice"
	SReal  = "Real"
)

var (
	tTrue  = Term{"true", SBool}
	tFalse = Term{"false", SBool}
	tZero  = Term{"0", SInt}
	tOne   = Term{"1", SInt}
	tNil   = Term{"0", SInt}
)

func (t Term) IsTrue() bool  { return t.S == "true" }
func (t Term) IsFalse() bool { return t.S == "false" }

func mk(sort, op string, args ...Term) Term {
	var b strings.Builder
	b.WriteByte('(')
	b.WriteString(op)
	for _, a := range args {
		b.WriteByte(' ')
		b.WriteString(a.S)
	}
	b.WriteByte(')')
	return Term{b.String(), sort}
}

func intLit(n int64) Term {
	if n < 0 {
		if n == -1<<63 {
			return Term{"(- 9223372036854775808)", SInt}
		}
		return Term{fmt.Sprintf("(- %d)", -n), SInt}
	}
	return Term{fmt.Sprintf("%d", n), SInt}
}

func bigLit(n *big.Int) Term {
	if n.Sign() < 0 {
		return Term{"(- " + new(big.Int).Neg(n).String() + ")", SInt}
	}
	return Term{n.String(), SInt}
}

func realLit(s string) Term {
	if strings.HasPrefix(s, "-") {
		return Term{"(- " + s[1:] + ")", SReal}
	}
	return Term{s, SReal}
}

func and(ts ...Term) Term {
	var keep []Term
	for _, t := range ts {
		if t.IsFalse() {
			return tFalse
		}
		if t.IsTrue() {
			continue
		}
		keep = append(keep, t)
	}
	switch len(keep) {
	case 0:
		return tTrue
	case 1:
		return keep[0]
	}
	return mk(SBool, "and", keep...)
}

func or(ts ...Term) Term {
	var keep []Term
	for _, t := range ts {
		if t.IsTrue() {
			return tTrue
		}
		if t.IsFalse() {
			continue
		}
		keep = append(keep, t)
	}
	switch len(keep) {
	case 0:
		return tFalse
	case 1:
		return keep[0]
	}
	return mk(SBool, "or", keep...)
}

func not(t Term) Term {
	if t.IsTrue() {
		return tFalse
	}
	if t.IsFalse() {
		return tTrue
	}
	if strings.HasPrefix(t.S, "(not ") {
		return Term{t.S[5 : len(t.S)-1], SBool}
	}
	return mk(SBool, "not", t)
}

func implies(a, b Term) Term {
	if a.IsTrue() {
		return b
	}
	if a.IsFalse() || b.IsTrue() {
		return tTrue
	}
	return mk(SBool, "=>", a, b)
}

func eq(a, b Term) Term {
	if a.S == b.S {
		return tTrue
	}
	return mk(SBool, "=", a, b)
}

func ite(c, a, b Term) Term {
	if c.IsTrue() {
		return a
	}
	if c.IsFalse() {
		return b
	}
	if a.S == b.S {
		return a
	}
	return mk(a.Sort, "ite", c, a, b)
}

func add(a, b Term) Term { return mk(SInt, "+", a, b) }
func sub(a, b Term) Term { return mk(SInt, "-", a, b) }
func mul(a, b Term) Term { return mk(SInt, "*", a, b) }
func lt(a, b Term) Term  { return mk(SBool, "<", a, b) }
func le(a, b Term) Term  { return mk(SBool, "<=", a, b) }
func gt(a, b Term) Term  { return mk(SBool, ">", a, b) }
func ge(a, b Term) Term  { return mk(SBool, ">=", a, b) }

func sel(arr, idx Term) Term {
	return mk(arrayElemSort(arr.Sort), "select", arr, idx)
}

func store(arr, idx, v Term) Term {
	return mk(arr.Sort, "store", arr, idx, v)
}

func arraySort(idx, elem string) string { return "(Array " + idx + " " + elem + ")" }

// arrayElemSort returns the element sort of "(Array I E)".
func arrayElemSort(s string) string {
	if !strings.HasPrefix(s, "(Array ") {
		panic("not an array sort: " + s)
	}
	body := s[len("(Array ") : len(s)-1]
	// the index sort is the first s-expression of body
	i := sexpEnd(body, 0)
	return strings.TrimSpace(body[i:])
}

func arrayIdxSort(s string) string {
	body := s[len("(Array ") : len(s)-1]
	i := sexpEnd(body, 0)
	return strings.TrimSpace(body[:i])
}

func sexpEnd(s string, i int) int {
	for i < len(s) && s[i] == ' ' {
		i++
	}
	if i < len(s) && s[i] == '(' {
		d := 0
		for ; i < len(s); i++ {
			if s[i] == '|' { // quoted symbol: may contain parentheses
				i++
				for i < len(s) && s[i] != '|' {
					i++
				}
				continue
			}
			if s[i] == '(' {
				d++
			} else if s[i] == ')' {
				d--
				if d == 0 {
					return i + 1
				}
			}
		}
		return i
	}
	if i < len(s) && s[i] == '|' {
		i++
		for i < len(s) && s[i] != '|' {
			i++
		}
		return i + 1
	}
	for i < len(s) && s[i] != ' ' && s[i] != ')' {
		i++
	}
	return i
}

// slice accessors
func sBase(s Term) Term { return mk(SInt, "sbase", s) }
func sOff(s Term) Term  { return mk(SInt, "soff", s) }
func sLen(s Term) Term  { return mk(SInt, "slen", s) }
func sCap(s Term) Term  { return mk(SInt, "scap", s) }
func mkSlice(base, off, ln, cp Term) Term {
	return mk(SSlice, "mkslice", base, off, ln, cp)
}

var nilSlice = Term{"(mkslice 0 0 0 0)", SSlice}

func quote(name string) string {
	name = strings.NewReplacer("|", "!", "\\", "/").Replace(name)
	return "|" + name + "|"
}

// prelude is emitted at the top of every SMT file.
const prelude = `(set-option :produce-models true)
(set-logic ALL)
(declare-sort Str 0)
(declare-datatypes ((Slice 0)) (((mkslice (sbase Int) (soff Int) (slen Int) (scap Int)))))
(declare-fun typeof (Int) Int)
(declare-fun strlen (Str) Int)
(declare-fun strcat (Str Str) Str)
(declare-fun strat (Str Int) Int)
(declare-fun strsub (Str Int Int) Str)
(declare-fun strlt (Str Str) Bool)
(declare-fun umul (Int Int) Int)
(declare-fun udiv (Int Int) Int)
(declare-fun umod (Int Int) Int)
(declare-fun fref (Int Int) Int)
(declare-fun eref (Int Int) Int)
(define-fun tdiv ((a Int) (b Int)) Int (ite (>= a 0) (ite (> b 0) (div a b) (- (div a (- b)))) (ite (> b 0) (- (div (- a) b)) (div (- a) (- b)))))
(define-fun tmod ((a Int) (b Int)) Int (- a (* b (tdiv a b))))
(define-fun wrapS64 ((x Int)) Int (ite (> x 9223372036854775807) (- x 18446744073709551616) (ite (< x (- 9223372036854775808)) (+ x 18446744073709551616) x)))
(define-fun wrapS32 ((x Int)) Int (ite (> x 2147483647) (- x 4294967296) (ite (< x (- 2147483648)) (+ x 4294967296) x)))
(define-fun wrapS16 ((x Int)) Int (ite (> x 32767) (- x 65536) (ite (< x (- 32768)) (+ x 65536) x)))
(define-fun wrapS8 ((x Int)) Int (ite (> x 127) (- x 256) (ite (< x (- 128)) (+ x 256) x)))
(define-fun wrapU64 ((x Int)) Int (ite (> x 18446744073709551615) (- x 18446744073709551616) (ite (< x 0) (+ x 18446744073709551616) x)))
(define-fun wrapU32 ((x Int)) Int (ite (> x 4294967295) (- x 4294967296) (ite (< x 0) (+ x 4294967296) x)))
(define-fun wrapU16 ((x Int)) Int (ite (> x 65535) (- x 65536) (ite (< x 0) (+ x 65536) x)))
(define-fun wrapU8 ((x Int)) Int (ite (> x 255) (- x 256) (ite (< x 0) (+ x 256) x)))
(define-fun fullS64 ((x Int)) Int (let ((m (mod x 18446744073709551616))) (ite (>= m 9223372036854775808) (- m 18446744073709551616) m)))
(define-fun fullS32 ((x Int)) Int (let ((m (mod x 4294967296))) (ite (>= m 2147483648) (- m 4294967296) m)))
(define-fun fullS16 ((x Int)) Int (let ((m (mod x 65536))) (ite (>= m 32768) (- m 65536) m)))
(define-fun fullS8 ((x Int)) Int (let ((m (mod x 256))) (ite (>= m 128) (- m 256) m)))
(define-fun fullU64 ((x Int)) Int (mod x 18446744073709551616))
(define-fun fullU32 ((x Int)) Int (mod x 4294967296))
(define-fun fullU16 ((x Int)) Int (mod x 65536))
(define-fun fullU8 ((x Int)) Int (mod x 256))
(define-fun imin ((a Int) (b Int)) Int (ite (<= a b) a b))
(define-fun imax ((a Int) (b Int)) Int (ite (>= a b) a b))
`

func imaxT(a, b Term) Term { return mk(SInt, "imax", a, b) }
