package main

import (
	"fmt"
	"go/constant"
	"go/token"
	"go/types"
	"math/big"
	"sort"
	"strings"

	"golang.org/x/tools/go/ssa"
)

// Obligation is one proof goal: under everything emitted before it (body[:Prefix]),
// Guard implies Goal.
type Obligation struct {
	Name    string
	Func    string
	Kind    string // requires-sat, callpre, ensures, invariant-entry, invariant-step, decreases, bounds, nil, div, assert, frame, panic, typeassert, vacuity
	Prefix  int
	Guard   Term
	Goal    Term
	Pos     token.Position
	Text    string
	WantSat bool // vacuity checks: the query (Guard ∧ Goal) must be satisfiable
	Models  []modelQuery
	CtxInts []string // integer loop variables of the loops enclosing the obligation (candidates for instantiation)
}

type modelQuery struct {
	Name string
	T    Term
}

type unsupported struct{ msg string }

func (u unsupported) Error() string { return u.msg }

func unsup(f string, a ...interface{}) {
	panic(unsupported{fmt.Sprintf(f, a...)})
}

// Ctx holds everything emitted for one function under verification.
type Ctx struct {
	eng       *Engine
	decls     []string
	declSeen  map[string]bool
	body      []string
	obls      []*Obligation
	counter   map[string]int
	strLits   map[string]Term
	strOrder  []string
	assumed   map[string]bool // assumptions used (evidence)
	externs   map[string]bool
	inlined   map[string]bool
	epochN    int
	dry       bool
	writes    map[string]bool // heap keys written (collected during dry runs and always)
	nonFresh  map[string]bool // heap keys written in a way that cannot be attributed to an object (opaque writes)
	freshRefs map[string]bool // reference terms returned by allocations of this run (of this loop body in a dry run)
	writeBases map[string]map[string]Term // heap key -> objects written (not allocated by this run)
	defined   map[string]bool // SMT symbols introduced so far
	named     map[string]Term // long spec terms that were given a name
	volatile  map[string]bool // heap keys written by spawned goroutines (reads are unconstrained)
	volatileAll bool
	fn        *ssa.Function
	oblCount  map[string]int
	instAxioms []string // quantified facts used by the instantiation stage only (contracts of pure functions)
	rootFrame *frame
	loopInts  []string // integer-valued loop variables (φ-nodes of loop headers) of the loops being executed
	depth     int
}

func (c *Ctx) fork() *Ctx {
	n := *c
	n.declSeen = cloneMap(c.declSeen)
	n.counter = cloneMap(c.counter)
	n.strLits = cloneMap(c.strLits)
	n.assumed = cloneMap(c.assumed)
	n.externs = cloneMap(c.externs)
	n.inlined = cloneMap(c.inlined)
	n.oblCount = cloneMap(c.oblCount)
	n.writes = map[string]bool{}
	n.nonFresh = map[string]bool{}
	n.freshRefs = map[string]bool{}
	n.writeBases = map[string]map[string]Term{}
	n.defined = cloneMap(c.defined)
	n.named = cloneMap(c.named)
	n.volatile = cloneMap(c.volatile)
	n.decls = c.decls[:len(c.decls):len(c.decls)]
	n.body = c.body[:len(c.body):len(c.body)]
	n.obls = c.obls[:len(c.obls):len(c.obls)]
	n.strOrder = c.strOrder[:len(c.strOrder):len(c.strOrder)]
	n.dry = true
	return &n
}

func cloneMap[K comparable, V any](m map[K]V) map[K]V {
	n := make(map[K]V, len(m))
	for k, v := range m {
		n[k] = v
	}
	return n
}

func (c *Ctx) decl(key, line string) {
	if c.declSeen[key] {
		return
	}
	c.declSeen[key] = true
	c.decls = append(c.decls, line)
}

func (c *Ctx) emit(line string) { c.body = append(c.body, line) }

func (c *Ctx) assume(t Term) {
	if t.IsTrue() {
		return
	}
	c.emit("(assert " + t.S + ")")
}

// fresh declares a new constant.
func (c *Ctx) fresh(hint, sort string) Term {
	c.counter[hint]++
	name := quote(fmt.Sprintf("%s!%d", hint, c.counter[hint]))
	c.ensureSort(sort)
	c.emit(fmt.Sprintf("(declare-const %s %s)", name, sort))
	c.defined[name] = true
	return Term{name, sort}
}

// name introduces a defined constant for t (keeps terms small).
func (c *Ctx) name(hint string, t Term) Term {
	if len(t.S) < 40 {
		return t
	}
	c.counter[hint]++
	name := quote(fmt.Sprintf("%s!%d", hint, c.counter[hint]))
	c.emit(fmt.Sprintf("(define-fun %s () %s %s)", name, t.Sort, t.S))
	c.defined[name] = true
	return Term{name, t.Sort}
}

func (c *Ctx) oblige(kind, name string, guard, goal Term, pos token.Position, text string) *Obligation {
	c.oblCount[name]++
	if n := c.oblCount[name]; n > 1 {
		name = fmt.Sprintf("%s~%d", name, n)
	}
	o := &Obligation{Name: name, Func: c.fn.String(), Kind: kind, Prefix: len(c.body), Guard: guard, Goal: goal, Pos: pos, Text: text}
	o.CtxInts = append(o.CtxInts, c.loopInts...)
	c.obls = append(c.obls, o)
	return o
}

// ---------------------------------------------------------------------------
// Sorts of Go types

func typeKey(t types.Type) string {
	return types.TypeString(t, nil)
}

func (c *Ctx) sortOf(t types.Type) string {
	switch u := t.(type) {
	case *types.Named:
		if st, ok := u.Underlying().(*types.Struct); ok {
			return c.structSort(u, st)
		}
		return c.sortOf(u.Underlying())
	case *types.Alias:
		return c.sortOf(types.Unalias(u))
	case *types.Basic:
		switch {
		case u.Info()&types.IsBoolean != 0:
			return SBool
		case u.Info()&types.IsInteger != 0:
			return SInt
		case u.Info()&types.IsFloat != 0:
			return SReal
		case u.Info()&types.IsString != 0:
			return SStr
		case u.Kind() == types.UnsafePointer, u.Kind() == types.UntypedNil:
			return SInt
		case u.Info()&types.IsComplex != 0:
			c.decl("sort Complex", "(declare-sort Complex 0)")
			return "Complex"
		}
	case *types.Pointer, *types.Map, *types.Chan, *types.Signature, *types.Interface:
		return SInt
	case *types.Slice:
		return SSlice
	case *types.Struct:
		return c.structSort(t, u)
	case *types.Array:
		return arraySort(SInt, c.sortOf(u.Elem()))
	case *types.TypeParam:
		n := quote("TP " + u.String())
		c.decl("sort "+n, fmt.Sprintf("(declare-sort %s 0)", n))
		return n
	case *types.Tuple:
		return "TUPLE"
	}
	unsup("sortOf: unsupported type %s", t)
	return ""
}

func fieldName(st *types.Struct, i int) string {
	f := st.Field(i)
	if f.Name() == "_" {
		return fmt.Sprintf("_%d", i)
	}
	return f.Name()
}

func (c *Ctx) structSort(t types.Type, st *types.Struct) string {
	key := typeKey(t)
	name := quote("S " + key)
	if c.declSeen["struct "+key] {
		return name
	}
	c.declSeen["struct "+key] = true
	var fs []string
	for i := 0; i < st.NumFields(); i++ {
		fs = append(fs, fmt.Sprintf("(%s %s)", quote("get "+key+"."+fieldName(st, i)), c.sortOf(st.Field(i).Type())))
	}
	line := fmt.Sprintf("(declare-datatypes ((%s 0)) (((%s %s))))", name, quote("mk "+key), strings.Join(fs, " "))
	c.decls = append(c.decls, line)
	c.eng.structDecls[name] = line
	return name
}

// ensureSort makes sure every struct datatype mentioned in an SMT sort string is declared in
// this context (sorts may have been first declared in a forked context of a dry run).
func (c *Ctx) ensureSort(srt string) {
	for i := 0; i < len(srt); i++ {
		if srt[i] != '|' {
			continue
		}
		j := strings.IndexByte(srt[i+1:], '|')
		if j < 0 {
			return
		}
		name := srt[i : i+j+2]
		i += j + 1
		if strings.HasPrefix(name, "|S ") {
			key := "struct " + name[3:len(name)-1]
			if c.declSeen[key] {
				continue
			}
			line, ok := c.eng.structDecls[name]
			if !ok {
				continue
			}
			c.declSeen[key] = true
			// dependencies first: the field sorts appear inside the declaration line
			rest := line[strings.Index(line, "((("):]
			c.ensureSort(rest)
			c.decls = append(c.decls, line)
		} else if strings.HasPrefix(name, "|TP ") {
			c.decl("sort "+name, fmt.Sprintf("(declare-sort %s 0)", name))
		}
	}
}

func structOf(t types.Type) (*types.Struct, bool) {
	st, ok := types.Unalias(t).Underlying().(*types.Struct)
	return st, ok
}

func (c *Ctx) structGet(t types.Type, st *types.Struct, i int, v Term) Term {
	c.sortOf(t)
	return mk(c.sortOf(st.Field(i).Type()), quote("get "+typeKey(t)+"."+fieldName(st, i)), v)
}

func (c *Ctx) structMk(t types.Type, st *types.Struct, fields []Term) Term {
	s := c.sortOf(t)
	if st.NumFields() == 0 {
		return Term{quote("mk " + typeKey(t)), s}
	}
	return mk(s, quote("mk "+typeKey(t)), fields...)
}

func (c *Ctx) structSet(t types.Type, st *types.Struct, v Term, i int, x Term) Term {
	fs := make([]Term, st.NumFields())
	for j := range fs {
		if j == i {
			fs[j] = x
		} else {
			fs[j] = c.structGet(t, st, j, v)
		}
	}
	return c.structMk(t, st, fs)
}

// zeroOf returns the zero value of a Go type.
func (c *Ctx) zeroOf(t types.Type) Term {
	s := c.sortOf(t)
	switch s {
	case SInt:
		return tZero
	case SBool:
		return tFalse
	case SReal:
		return Term{"0.0", SReal}
	case SStr:
		return c.strLit("")
	case SSlice:
		return nilSlice
	}
	if st, ok := structOf(t); ok {
		fs := make([]Term, st.NumFields())
		for i := range fs {
			fs[i] = c.zeroOf(st.Field(i).Type())
		}
		return c.structMk(t, st, fs)
	}
	if at, ok := types.Unalias(t).Underlying().(*types.Array); ok {
		return Term{fmt.Sprintf("((as const %s) %s)", s, c.zeroOf(at.Elem()).S), s}
	}
	// opaque sorts (type parameters, complex)
	z := Term{quote("zero " + s), s}
	c.decl("zero "+s, fmt.Sprintf("(declare-const %s %s)", z.S, s))
	return z
}

func (c *Ctx) strLit(v string) Term {
	if t, ok := c.strLits[v]; ok {
		return t
	}
	show := v
	if len(show) > 24 {
		show = show[:24] + "…"
	}
	show = strings.Map(func(r rune) rune {
		if r == '|' || r == '\\' || r < 32 {
			return '?'
		}
		return r
	}, show)
	name := Term{quote(fmt.Sprintf("str %d %q", len(c.strLits), show)), SStr}
	c.decls = append(c.decls, fmt.Sprintf("(declare-const %s Str)", name.S))
	c.decls = append(c.decls, fmt.Sprintf("(assert (= (strlen %s) %d))", name.S, len(v)))
	for _, o := range c.strOrder {
		c.decls = append(c.decls, fmt.Sprintf("(assert (not (= %s %s)))", name.S, c.strLits[o].S))
	}
	c.strLits[v] = name
	c.strOrder = append(c.strOrder, v)
	return name
}

// intRange returns the value range of an integer type.
func intRange(b *types.Basic) (lo, hi *big.Int, bits int, signed bool) {
	bits = 64
	switch b.Kind() {
	case types.Int8, types.Uint8:
		bits = 8
	case types.Int16, types.Uint16:
		bits = 16
	case types.Int32, types.Uint32:
		bits = 32
	}
	signed = b.Info()&types.IsUnsigned == 0
	one := big.NewInt(1)
	if signed {
		hi = new(big.Int).Sub(new(big.Int).Lsh(one, uint(bits-1)), one)
		lo = new(big.Int).Neg(new(big.Int).Lsh(one, uint(bits-1)))
	} else {
		lo = big.NewInt(0)
		hi = new(big.Int).Sub(new(big.Int).Lsh(one, uint(bits)), one)
	}
	return
}

func basicInt(t types.Type) (*types.Basic, bool) {
	b, ok := types.Unalias(t).Underlying().(*types.Basic)
	if !ok || b.Info()&types.IsInteger == 0 {
		return nil, false
	}
	return b, true
}

func wrapName(b *types.Basic, full bool) string {
	_, _, bits, signed := intRange(b)
	p := "wrap"
	if full {
		p = "full"
	}
	s := "U"
	if signed {
		s = "S"
	}
	return fmt.Sprintf("%s%s%d", p, s, bits)
}

// typeInv returns the type invariant of a value v of Go type t (integer ranges,
// slice well-formedness, references not from the future).
func (c *Ctx) typeInv(v Term, t types.Type, nalloc Term, depth int) Term {
	switch u := types.Unalias(t).Underlying().(type) {
	case *types.Basic:
		if u.Info()&types.IsInteger != 0 {
			lo, hi, _, _ := intRange(u)
			return and(le(bigLit(lo), v), le(v, bigLit(hi)))
		}
		if u.Info()&types.IsString != 0 {
			return ge(mk(SInt, "strlen", v), tZero)
		}
		if u.Kind() == types.UnsafePointer {
			return ge(v, mk(SInt, "-", nalloc))
		}
	case *types.Pointer, *types.Map, *types.Chan, *types.Signature:
		return ge(v, mk(SInt, "-", nalloc))
	case *types.Interface:
		return tTrue // boxes may be arbitrary ints
	case *types.Slice:
		return and(ge(sBase(v), mk(SInt, "-", nalloc)), le(tZero, sOff(v)), le(tZero, sLen(v)), le(sLen(v), sCap(v)),
			le(sCap(v), Term{"4611686018427387904", SInt}), le(sOff(v), Term{"4611686018427387904", SInt}),
			implies(eq(sBase(v), tZero), and(eq(sCap(v), tZero), eq(sOff(v), tZero))))
	case *types.Struct:
		if depth > 3 {
			return tTrue
		}
		var cs []Term
		for i := 0; i < u.NumFields(); i++ {
			cs = append(cs, c.typeInv(c.structGet(t, u, i, v), u.Field(i).Type(), nalloc, depth+1))
		}
		return and(cs...)
	}
	return tTrue
}

func (c *Ctx) typeID(t types.Type) Term {
	return c.eng.typeID(t)
}

// constTerm converts an ssa.Const.
func (c *Ctx) constTerm(k *ssa.Const) Term {
	t := k.Type()
	if k.Value == nil {
		return c.zeroOf(t)
	}
	switch k.Value.Kind() {
	case constant.Bool:
		if constant.BoolVal(k.Value) {
			return tTrue
		}
		return tFalse
	case constant.String:
		return c.strLit(constant.StringVal(k.Value))
	case constant.Int:
		if b, ok := types.Unalias(t).Underlying().(*types.Basic); ok && b.Info()&types.IsFloat != 0 {
			return realLit(k.Value.ExactString() + ".0")
		}
		v, _ := new(big.Int).SetString(k.Value.ExactString(), 10)
		return bigLit(v)
	case constant.Float:
		r, ok := new(big.Rat).SetString(k.Value.ExactString())
		if !ok {
			unsup("float constant %s", k.Value)
		}
		if b, ok := basicInt(t); ok {
			_ = b
			f, _ := new(big.Float).SetRat(r).Int(nil)
			return bigLit(f)
		}
		num, den := r.Num(), r.Denom()
		n := Term{num.String() + ".0", SReal}
		if num.Sign() < 0 {
			n = Term{"(- " + new(big.Int).Neg(num).String() + ".0)", SReal}
		}
		if den.Cmp(big.NewInt(1)) == 0 {
			return n
		}
		return mk(SReal, "/", n, Term{den.String() + ".0", SReal})
	}
	unsup("constant %s", k)
	return Term{}
}

// ---------------------------------------------------------------------------
// Heap

type heapState struct {
	epoch  int
	arrays map[string]Term
}

func (h *heapState) clone() *heapState {
	return &heapState{h.epoch, cloneMap(h.arrays)}
}

func (c *Ctx) newEpoch() *heapState {
	c.epochN++
	return &heapState{epoch: c.epochN, arrays: map[string]Term{}}
}

// heapGet returns the current version of a heap array, declaring the epoch's initial
// constant on first use.
func (c *Ctx) heapGet(h *heapState, key, sort string) Term {
	if key != allocKey && (c.volatileAll || c.volatile[key]) {
		// written by a concurrently running goroutine: every read sees an arbitrary value
		nv := c.fresh(key+"~volatile", sort)
		c.eng.heapSorts[key] = sort
		h.arrays[key] = nv
		return nv
	}
	if t, ok := h.arrays[key]; ok {
		return t
	}
	c.eng.heapSorts[key] = sort
	c.ensureSort(sort)
	name := quote(fmt.Sprintf("%s@%d", key, h.epoch))
	c.decl("heap "+name, fmt.Sprintf("(declare-const %s %s)", name, sort))
	c.defined[name] = true
	return Term{name, sort}
}

func (c *Ctx) heapSet(h *heapState, key string, t Term) {
	c.eng.heapSorts[key] = t.Sort
	c.writes[key] = true
	if key != allocKey {
		c.nonFresh[key] = true
	}
	h.arrays[key] = c.name(key, t)
}

// heapSetAt records a write to the object `base` only; writes to objects allocated by the
// function itself are tracked separately (loop frames: objects that existed before a loop are
// unchanged by it when the loop only writes objects it allocated).
func (c *Ctx) heapSetAt(h *heapState, key string, t Term, base Term) {
	c.eng.heapSorts[key] = t.Sort
	c.writes[key] = true
	if !c.freshRefs[base.S] {
		if c.writeBases[key] == nil {
			c.writeBases[key] = map[string]Term{}
		}
		c.writeBases[key][base.S] = base
	}
	h.arrays[key] = c.name(key, t)
}

// symbolsDefined reports whether every quoted symbol of a term was introduced before (the term is
// meaningful outside the loop body that computed it).
func symbolsDefined(t string, defined map[string]bool) bool {
	for i := 0; i < len(t); i++ {
		if t[i] != '|' {
			continue
		}
		j := strings.IndexByte(t[i+1:], '|')
		if j < 0 {
			return false
		}
		name := t[i : i+j+2]
		i += j + 1
		if strings.HasPrefix(name, "|get ") || strings.HasPrefix(name, "|mk ") || strings.HasPrefix(name, "|S ") || strings.HasPrefix(name, "|pure ") ||
			strings.HasPrefix(name, "|unbox ") || strings.HasPrefix(name, "|box ") || strings.HasPrefix(name, "|glob ") || strings.HasPrefix(name, "|func ") || strings.HasPrefix(name, "|str ") {
			continue
		}
		if !defined[name] {
			return false
		}
	}
	return true
}

const allocKey = "A nalloc"

func (c *Ctx) nalloc(h *heapState) Term { return c.heapGet(h, allocKey, SInt) }

// mergeHeaps merges heap states arriving over edges with conditions conds.
func (c *Ctx) mergeHeaps(conds []Term, hs []*heapState) *heapState {
	if len(hs) == 1 {
		return hs[0].clone()
	}
	sameEpoch := true
	for _, h := range hs[1:] {
		if h.epoch != hs[0].epoch {
			sameEpoch = false
		}
	}
	keys := map[string]bool{}
	for _, h := range hs {
		for k := range h.arrays {
			keys[k] = true
		}
	}
	var out *heapState
	if sameEpoch {
		out = &heapState{hs[0].epoch, map[string]Term{}}
	} else {
		out = c.newEpoch()
		for k := range c.eng.heapSorts {
			keys[k] = true
		}
	}
	ks := make([]string, 0, len(keys))
	for k := range keys {
		ks = append(ks, k)
	}
	sort.Strings(ks)
	for _, k := range ks {
		srt := c.eng.heapSorts[k]
		t := c.heapGet(hs[len(hs)-1], k, srt)
		for i := len(hs) - 2; i >= 0; i-- {
			t = ite(conds[i], c.heapGet(hs[i], k, srt), t)
		}
		if _, ok := hs[0].arrays[k]; !ok && sameEpoch && t.S == c.heapGet(hs[0], k, srt).S {
			continue
		}
		out.arrays[k] = c.name(k, t)
	}
	return out
}

func fieldKey(structType types.Type, st *types.Struct, i int) string {
	return "F " + typeKey(structType) + "." + fieldName(st, i)
}
func elemKey(elem types.Type) string { return "E " + typeKey(elem) }
func cellKey(t types.Type) string    { return "P " + typeKey(t) }

func (c *Ctx) fieldSort(st *types.Struct, i int) string {
	return arraySort(SInt, c.sortOf(st.Field(i).Type()))
}
func (c *Ctx) elemSort(elem types.Type) string {
	return arraySort(SInt, arraySort(SInt, c.sortOf(elem)))
}
func (c *Ctx) cellSort(t types.Type) string { return arraySort(SInt, c.sortOf(t)) }
