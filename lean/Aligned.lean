/-
Arithmetic lemmas behind the `aligned` axioms of /verif/contracts/arith.contracts.
aligned x b m  :=  (x - b) % m = 0   (Int.emod = SMT-LIB `mod` for m > 0)
The SMT solvers do not prove divisibility facts with a symbolic modulus reliably; these three
facts are therefore given to them as axioms and are proved here once, by Lean's kernel.
Checked by `lean /verif/lean/Aligned.lean` (setup and thorough tier); core library only.
-/
theorem aligned_trans (x y b m : Int) (h1 : (x - b) % m = 0) (h2 : (y - x) % m = 0) : (y - b) % m = 0 := by
  have d1 : m ∣ (x - b) := Int.dvd_of_emod_eq_zero h1
  have d2 : m ∣ (y - x) := Int.dvd_of_emod_eq_zero h2
  have e : y - b = (y - x) + (x - b) := by omega
  rw [e]
  exact Int.emod_eq_zero_of_dvd (Int.dvd_add d2 d1)

theorem aligned_step (x y b m : Int) (h1 : (x - b) % m = 0) (h2 : y = x + m) : (y - b) % m = 0 := by
  have d1 : m ∣ (x - b) := Int.dvd_of_emod_eq_zero h1
  have e : y - b = (x - b) + m := by omega
  rw [e]
  exact Int.emod_eq_zero_of_dvd (Int.dvd_add d1 (Int.dvd_refl m))

theorem aligned_refl (x m : Int) : (x - x) % m = 0 := by
  simp
