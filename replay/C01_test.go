package dedup

// Replay harness for C01 (injected with `go test -overlay`): merging replicas of one series with the
// penalty algorithm must give strictly increasing timestamps, only samples that one of the replicas
// holds at that timestamp, leave a single replica / identical replicas unchanged, and a reader that
// first seeks to t must see exactly the suffix (from t on) of what a reader iterating from the start
// sees. Evaluated on the real merge (newDedupSeries(..).Iterator) for the model's seek target (if
// any) and a grid of replica layouts: gaps, overlaps, jitter, different start offsets, 1..4 replicas.

import (
	"encoding/json"
	"fmt"
	"math"
	"math/rand"
	"os"
	"strconv"
	"strings"
	"testing"

	"github.com/prometheus/prometheus/model/labels"
	"github.com/prometheus/prometheus/storage"
	"github.com/prometheus/prometheus/tsdb/chunkenc"
)

type c01series struct{ ts []int64 }

func (s c01series) Labels() labels.Labels { return labels.EmptyLabels() }
func (s c01series) Iterator(chunkenc.Iterator) chunkenc.Iterator {
	c := chunkenc.NewXORChunk()
	app, _ := c.Appender()
	for _, t := range s.ts {
		app.Append(t, float64(t)*1.5+1)
	}
	return c.Iterator(nil)
}

func c01merge(reps [][]int64, f string) chunkenc.Iterator {
	var rs []storage.Series
	for _, r := range reps {
		rs = append(rs, c01series{r})
	}
	return newDedupSeries(labels.EmptyLabels(), rs, f).Iterator(nil)
}

type c01pt struct {
	t int64
	v float64
}

func c01drain(it chunkenc.Iterator, first bool) []c01pt {
	var out []c01pt
	if first {
		t, v := it.At()
		out = append(out, c01pt{t, v})
	}
	for it.Next() != chunkenc.ValNone {
		t, v := it.At()
		out = append(out, c01pt{t, v})
	}
	return out
}

func c01check(reps [][]int64, seeks []int64, msgs *[]string) {
	add := func(s string) {
		if len(*msgs) < 4 {
			*msgs = append(*msgs, fmt.Sprintf("replicas %v: %s", reps, s))
		}
	}
	full := c01drain(c01merge(reps, ""), false)
	for _, f := range []string{"delta", "xdelta", "max_over_time", "deriv", "changes"} { // non-counter query functions
		for _, p := range c01drain(c01merge(reps, f), false) {
			if !c01holds(reps, p) {
				add(fmt.Sprintf("query function %s: merged sample (%d, %v) is held by no replica", f, p.t, p.v))
				break
			}
		}
	}
	holds := map[c01pt]bool{}
	for _, r := range reps {
		for _, t := range r {
			holds[c01pt{t, float64(t)*1.5 + 1}] = true
		}
	}
	for i, p := range full {
		if i > 0 && p.t <= full[i-1].t {
			add(fmt.Sprintf("merged timestamps not strictly increasing: %d after %d", p.t, full[i-1].t))
		}
		if !holds[p] {
			add(fmt.Sprintf("merged sample (%d, %v) is held by no replica", p.t, p.v))
		}
	}
	same := true
	for _, r := range reps[1:] {
		if fmt.Sprint(r) != fmt.Sprint(reps[0]) {
			same = false
		}
	}
	if same && len(full) != len(reps[0]) {
		add(fmt.Sprintf("%d identical replicas of %d samples merge to %d samples", len(reps), len(reps[0]), len(full)))
	}
	for _, t := range seeks {
		it := c01merge(reps, "")
		var got []c01pt
		if it.Seek(t) != chunkenc.ValNone {
			got = c01drain(it, true)
		}
		var want []c01pt
		for _, p := range full {
			if p.t >= t {
				want = append(want, p)
			}
		}
		if fmt.Sprint(got) != fmt.Sprint(want) {
			add(fmt.Sprintf("a reader that first seeks to %d sees timestamps %v, the suffix of the full iteration is %v", t, c01ts(got), c01ts(want)))
		}
	}
}

func c01holds(reps [][]int64, p c01pt) bool {
	for _, r := range reps {
		for _, t := range r {
			if t == p.t && float64(t)*1.5+1 == p.v {
				return true
			}
		}
	}
	return false
}

func c01ts(ps []c01pt) []int64 {
	var ts []int64
	for _, p := range ps {
		ts = append(ts, p.t)
	}
	return ts
}

func TestGovcReplay(t *testing.T) {
	data, err := os.ReadFile(os.Getenv("GOVC_REPLAY_FILE"))
	if err != nil {
		t.Skip("no replay file")
	}
	var r struct {
		Model map[string]string `json:"model"`
	}
	_ = json.Unmarshal(data, &r)
	var msgs []string
	seeks := []int64{math.MinInt64, math.MinInt64 + 1, -1, 0, 1, 4999, 5000, 10000, 10001, 17500, 30000, 100000, math.MaxInt64}
	if v, err := strconv.ParseInt(strings.TrimSpace(r.Model["t"]), 10, 64); err == nil {
		seeks = append([]int64{v}, seeks...)
	}
	fixed := [][][]int64{
		{{10000, 20000, 30000}, {5000, 15000, 25000}},
		{{5000, 15000, 25000}, {10000, 20000, 30000}},
		{{10000, 20000, 30000}},
		{{10000, 20000, 30000}, {10000, 20000, 30000}, {10000, 20000, 30000}},
		{{10000, 20000}, {}, {10001, 20001, 30001}},
		{{}, {7000, 17000}},
		{{10000, 20000, 50000, 60000}, {12000, 22000, 32000, 42000, 52000}, {9000}},
	}
	for _, reps := range fixed {
		c01check(reps, seeks, &msgs)
	}
	rnd := rand.New(rand.NewSource(3))
	for i := 0; i < 300; i++ {
		var reps [][]int64
		for k := 0; k < 1+rnd.Intn(4); k++ {
			var ts []int64
			t0 := int64(rnd.Intn(12000))
			for j := 0; j < rnd.Intn(8); j++ {
				ts = append(ts, t0)
				t0 += 10000 + int64(rnd.Intn(300)) - 150
				if rnd.Intn(6) == 0 {
					t0 += 30000
				}
			}
			reps = append(reps, ts)
		}
		c01check(reps, []int64{int64(rnd.Intn(60000)), 0}, &msgs)
	}
	if len(msgs) > 0 {
		fmt.Println("REPLAY: reproduced:", strings.Join(msgs, "; "))
		t.Fail()
		return
	}
	fmt.Println("REPLAY: not reproduced")
}
