package dedup

// Replay harness for C02 (injected with `go test -overlay`): for counter-style query functions
// (rate, irate, increase, resets) over replicas whose values never decrease, the deduplicated series
// never decreases either, whenever the merge switches between replicas. Evaluated on the real merge
// for 2..4 monotone replicas with independent scrape offsets, gaps, start values and lengths
// (including replicas that end early and switch sequences A -> B -> A -> B).

import (
	"fmt"
	"math/rand"
	"os"
	"strings"
	"testing"

	"github.com/prometheus/prometheus/model/labels"
	"github.com/prometheus/prometheus/storage"
	"github.com/prometheus/prometheus/tsdb/chunkenc"
)

type c02series struct {
	ts []int64
	vs []float64
}

func (s c02series) Labels() labels.Labels { return labels.EmptyLabels() }
func (s c02series) Iterator(chunkenc.Iterator) chunkenc.Iterator {
	c := chunkenc.NewXORChunk()
	app, _ := c.Appender()
	for i, t := range s.ts {
		app.Append(t, s.vs[i])
	}
	return c.Iterator(nil)
}

func c02run(reps []c02series, msgs *[]string) {
	for _, f := range []string{"rate", "irate", "increase", "resets"} {
		var rs []storage.Series
		for _, r := range reps {
			rs = append(rs, r)
		}
		it := newDedupSeries(labels.EmptyLabels(), rs, f).Iterator(nil)
		have := false
		var lastT int64
		var last float64
		for it.Next() != chunkenc.ValNone {
			t, v := it.At()
			if have && v < last && len(*msgs) < 4 {
				*msgs = append(*msgs, fmt.Sprintf("%s over replicas %v: deduplicated counter drops from %v (t=%d) to %v (t=%d)", f, reps, last, lastT, v, t))
			}
			have, lastT, last = true, t, v
		}
	}
}

func TestGovcReplay(t *testing.T) {
	if _, err := os.ReadFile(os.Getenv("GOVC_REPLAY_FILE")); err != nil {
		t.Skip("no replay file")
	}
	var msgs []string
	// replica A has a gap, then B, then A again, with B growing slower in between (two corrections of A)
	c02run([]c02series{
		{[]int64{10000, 20000, 30000, 80000, 90000, 100000, 150000, 160000}, []float64{10, 20, 30, 31, 32, 33, 34, 35}},
		{[]int64{11000, 21000, 31000, 41000, 51000, 61000, 71000, 101000, 111000, 121000, 131000, 141000}, []float64{100, 110, 120, 130, 140, 150, 160, 161, 162, 163, 164, 165}},
	}, &msgs)
	// the preferred replica ends early; the survivor carries a lower total
	c02run([]c02series{
		{[]int64{10000, 20000, 30000}, []float64{100, 120, 140}},
		{[]int64{11000, 21000, 31000, 41000, 51000}, []float64{60, 70, 80, 90, 95}},
	}, &msgs)
	rnd := rand.New(rand.NewSource(11))
	for i := 0; i < 400; i++ {
		var reps []c02series
		for k := 0; k < 2+rnd.Intn(3); k++ {
			var s c02series
			t0 := int64(rnd.Intn(9000))
			v := float64(rnd.Intn(200))
			for j := 0; j < 1+rnd.Intn(12); j++ {
				s.ts = append(s.ts, t0)
				s.vs = append(s.vs, v)
				t0 += 10000 + int64(rnd.Intn(200))
				if rnd.Intn(4) == 0 {
					t0 += int64(1+rnd.Intn(4)) * 10000
				}
				v += float64(rnd.Intn(15))
			}
			reps = append(reps, s)
		}
		c02run(reps, &msgs)
	}
	if len(msgs) > 0 {
		fmt.Println("REPLAY: reproduced:", strings.Join(msgs, "; "))
		t.Fail()
		return
	}
	fmt.Println("REPLAY: not reproduced")
}
