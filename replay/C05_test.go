package store

// Replay harness for C05 (injected with `go test -overlay`). Evaluates the property statement on the
// real code with an oracle written independently of proxy.go: a store may be skipped for its time
// range only if no instant of its advertised range lies in the query range, and for its external
// labels only if every advertised label set is contradicted by some matcher on a label that is
// present in that set (a series of the store carries the external labels of its set).

import (
	"context"
	"encoding/json"
	"fmt"
	"os"
	"strconv"
	"strings"
	"testing"

	"github.com/prometheus/prometheus/model/labels"

	"github.com/thanos-io/thanos/pkg/info/infopb"
	"github.com/thanos-io/thanos/pkg/store/storepb"
)

type govcReplay struct {
	Property   string            `json:"property"`
	Obligation string            `json:"obligation"`
	Function   string            `json:"function"`
	Model      map[string]string `json:"model"`
}

func govcLoad(t *testing.T) *govcReplay {
	data, err := os.ReadFile(os.Getenv("GOVC_REPLAY_FILE"))
	if err != nil {
		t.Skip("no replay file")
	}
	var r govcReplay
	if err := json.Unmarshal(data, &r); err != nil {
		t.Fatal(err)
	}
	return &r
}

func (r *govcReplay) i64(name string) (int64, bool) {
	v, err := strconv.ParseInt(strings.TrimSpace(r.Model[name]), 10, 64)
	return v, err == nil
}

type govcClient struct {
	storepb.StoreClient
	lsets      []labels.Labels
	mint, maxt int64
}

func (c *govcClient) LabelSets() []labels.Labels          { return c.lsets }
func (c *govcClient) TimeRange() (int64, int64)            { return c.mint, c.maxt }
func (c *govcClient) TSDBInfos() []infopb.TSDBInfo         { return nil }
func (c *govcClient) SupportsSharding() bool               { return false }
func (c *govcClient) SupportsWithoutReplicaLabels() bool   { return false }
func (c *govcClient) String() string                       { return "govc" }
func (c *govcClient) Addr() (string, bool)                 { return "govc:1", false }
func (c *govcClient) Matches(_ []*labels.Matcher) bool     { return true }

// a label set can hold a matching series unless some matcher contradicts a label present in it
func govcSetCanMatch(ls labels.Labels, ms []*labels.Matcher) bool {
	for _, m := range ms {
		if ls.Has(m.Name) && !m.Matches(ls.Get(m.Name)) {
			return false
		}
	}
	return true
}

func TestGovcReplay(t *testing.T) {
	r := govcLoad(t)
	var msgs []string
	add := func(f string, a ...interface{}) {
		if len(msgs) < 5 {
			msgs = append(msgs, fmt.Sprintf(f, a...))
		}
	}
	// time ranges: the model's values first, then a small grid around the boundaries
	type tr struct{ smin, smax, qmin, qmax int64 }
	var trs []tr
	if qmin, ok := r.i64("mint"); ok {
		qmax, _ := r.i64("maxt")
		for _, d := range []int64{0, 1, -1} {
			trs = append(trs, tr{qmax + d, qmax + d + 10, qmin, qmax}, tr{qmin - 10 + d, qmin + d, qmin, qmax})
		}
	}
	for _, b := range []int64{100} {
		for _, d := range []int64{-1, 0, 1} {
			trs = append(trs, tr{b, b + 100, b - 50, b + d}, tr{b, b + 100, b + 100 + d, b + 300}, tr{b, b, b + d, b + d})
		}
	}
	for _, x := range trs {
		if x.qmin > x.qmax || x.smin > x.smax {
			continue
		}
		c := &govcClient{mint: x.smin, maxt: x.smax}
		ok, reason := storeMatches(context.Background(), false, c, x.qmin, x.qmax)
		overlap := x.qmin <= x.smax && x.qmax >= x.smin
		if !ok && overlap {
			add("store with data in [%d,%d] skipped for query [%d,%d] (%s) although the ranges share an instant", x.smin, x.smax, x.qmin, x.qmax, reason)
		}
	}
	// external labels
	mk := func(ty labels.MatchType, n, v string) *labels.Matcher { return labels.MustNewMatcher(ty, n, v) }
	ms := []*labels.Matcher{
		mk(labels.MatchEqual, "region", "us"), mk(labels.MatchEqual, "region", "ap"), mk(labels.MatchEqual, "region", ""),
		mk(labels.MatchNotEqual, "region", "us"), mk(labels.MatchRegexp, "region", "us|eu"), mk(labels.MatchNotRegexp, "region", "us|eu|ap"),
		mk(labels.MatchEqual, "job", "x"), mk(labels.MatchEqual, "replica", "a"),
	}
	lsetCases := [][]labels.Labels{
		nil,
		{labels.EmptyLabels()},
		{labels.FromStrings("region", "us")},
		{labels.FromStrings("region", "us"), labels.EmptyLabels()},
		{labels.FromStrings("region", "us", "replica", "a"), labels.FromStrings("region", "eu", "replica", "b")},
		{labels.FromStrings("region", "eu"), labels.FromStrings("region", "ap")},
	}
	var msets [][]*labels.Matcher
	msets = append(msets, nil)
	for i := range ms {
		msets = append(msets, []*labels.Matcher{ms[i]})
		for j := i + 1; j < len(ms); j++ {
			msets = append(msets, []*labels.Matcher{ms[i], ms[j]})
		}
	}
	for _, lsets := range lsetCases {
		for _, mset := range msets {
			can := len(lsets) == 0
			for _, ls := range lsets {
				if govcSetCanMatch(ls, mset) {
					can = true
				}
			}
			if got := LabelSetsMatch(mset, lsets...); !got && can {
				add("LabelSetsMatch(%v, %v) = false although a label set can hold matching series", mset, lsets)
			}
			c := &govcClient{lsets: lsets, mint: 0, maxt: 100}
			if ok, reason := storeMatches(context.Background(), false, c, 0, 100, mset...); !ok && can {
				add("store with label sets %v skipped for matchers %v (%s) although it can hold matching series", lsets, mset, reason)
			}
		}
	}
	if len(msgs) > 0 {
		fmt.Println("REPLAY: reproduced:", strings.Join(msgs, "; "))
		t.Fail()
		return
	}
	fmt.Println("REPLAY: not reproduced")
}
