package store

// Replay harness for C09 (injected with `go test -overlay`): a Limiter with the model's limit is
// driven with the model's reservation (and a few neighbouring sequences); a reservation must succeed
// iff the running total stays within the limit, 0 meaning unlimited.

import (
	"encoding/json"
	"fmt"
	"os"
	"strconv"
	"strings"
	"testing"

	"github.com/prometheus/client_golang/prometheus"
)

func TestGovcReplay(t *testing.T) {
	data, err := os.ReadFile(os.Getenv("GOVC_REPLAY_FILE"))
	if err != nil {
		t.Skip("no replay file")
	}
	var r struct {
		Model map[string]string `json:"model"`
	}
	_ = json.Unmarshal(data, &r)
	u := func(k string, d uint64) uint64 {
		v, err := strconv.ParseUint(strings.TrimSpace(r.Model[k]), 10, 64)
		if err != nil {
			return d
		}
		return v
	}
	var msgs []string
	run := func(limit uint64, nums []uint64) {
		l := NewLimiter(limit, prometheus.NewCounter(prometheus.CounterOpts{Name: "x"}))
		var total uint64
		for i, n := range nums {
			err := l.Reserve(n)
			total += n
			want := limit == 0 || total <= limit
			if (err == nil) != want && len(msgs) < 3 {
				msgs = append(msgs, fmt.Sprintf("limit %d, reservations %v: reservation %d (running total %d) returned err=%v", limit, nums[:i+1], i, total, err))
			}
		}
	}
	lim, num := u("l.limit", 10), u("num", 3)
	run(lim, []uint64{num})
	run(lim, []uint64{num, num})
	for _, limit := range []uint64{0, 1, 5, 10} {
		for _, seq := range [][]uint64{{0}, {1}, {5}, {6}, {10}, {11}, {4, 1}, {4, 2}, {5, 5, 1}, {10, 0, 1}, {3, 3, 3, 3}} {
			run(limit, seq)
		}
	}
	if len(msgs) > 0 {
		fmt.Println("REPLAY: reproduced:", strings.Join(msgs, "; "))
		t.Fail()
		return
	}
	fmt.Println("REPLAY: not reproduced")
}
