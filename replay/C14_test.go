package storecache

// Replay harness for C14 (injected with `go test -overlay`). Evaluates the property statement on the
// real caching bucket over an in-memory bucket and an in-memory cache: every range read through the
// caching bucket (cold cache, then warm cache) must return the same bytes as the underlying bucket and
// must not crash, for object sizes / subrange sizes / offsets / lengths around the subrange and
// object-size boundaries (aligned and unaligned offsets, lengths that are multiples of the subrange
// size, requests ending at or beyond the object, offsets beyond the object).

import (
	"bytes"
	"context"
	"fmt"
	"io"
	"os"
	"strings"
	"testing"
	"time"

	"github.com/go-kit/log"
	"github.com/thanos-io/objstore"

	thanoscache "github.com/thanos-io/thanos/pkg/cache"
)

func govcRead(b objstore.Bucket, name string, off, length int64) (data []byte, err error, panicked interface{}) {
	defer func() { panicked = recover() }()
	r, e := b.GetRange(context.Background(), name, off, length)
	if e != nil {
		return nil, e, nil
	}
	defer r.Close()
	data, err = io.ReadAll(r)
	return data, err, nil
}

func TestGovcReplay(t *testing.T) {
	if _, err := os.ReadFile(os.Getenv("GOVC_REPLAY_FILE")); err != nil {
		t.Skip("no replay file")
	}
	var msgs []string
	for _, size := range []int64{0, 1, 95, 100, 250} {
		obj := make([]byte, size)
		for i := range obj {
			obj[i] = byte('a' + i%26)
		}
		for _, sub := range []int64{1, 10, 16, 100} {
			for _, maxReq := range []int{0, 1, 3} {
				inmem := objstore.NewInMemBucket()
				_ = inmem.Upload(context.Background(), "obj", bytes.NewReader(obj))
				c, _ := thanoscache.NewInMemoryCacheWithConfig("c", log.NewNopLogger(), nil, thanoscache.InMemoryCacheConfig{MaxSize: 1 << 20, MaxItemSize: 1 << 16})
				cfg := thanoscache.NewCachingBucketConfig()
				cfg.CacheGetRange("x", c, func(string) bool { return true }, sub, time.Hour, time.Hour, maxReq)
				cb, err := NewCachingBucket(inmem, cfg, nil, nil)
				if err != nil {
					continue
				}
				for _, off := range []int64{0, 1, sub - 1, sub, sub + 5, size - 1, size, size + sub, 2 * size} {
					for _, length := range []int64{0, 1, sub, 2 * sub, sub + 3, size, size + 7} {
						if off < 0 || len(msgs) >= 3 {
							continue
						}
						want, werr, _ := govcRead(inmem, "obj", off, length)
						for pass := 0; pass < 2; pass++ { // cold, then warm cache
							got, gerr, p := govcRead(cb, "obj", off, length)
							switch {
							case p != nil:
								msgs = append(msgs, fmt.Sprintf("size %d subrange %d maxreq %d: GetRange(%d,%d) crashed: %v (underlying bucket: %d bytes, err=%v)", size, sub, maxReq, off, length, p, len(want), werr))
							case werr == nil && (gerr != nil || !bytes.Equal(got, want)):
								msgs = append(msgs, fmt.Sprintf("size %d subrange %d maxreq %d pass %d: GetRange(%d,%d) = %q, err=%v; underlying bucket returns %q", size, sub, maxReq, pass, off, length, got, gerr, want))
							}
							if len(msgs) >= 3 {
								break
							}
						}
					}
				}
			}
		}
	}
	if len(msgs) > 0 {
		fmt.Println("REPLAY: reproduced:", strings.Join(msgs, "; "))
		t.Fail()
		return
	}
	fmt.Println("REPLAY: not reproduced")
}
