package store

// Replay harness for C15 (injected with `go test -overlay`): for any layout of blocks at raw, 5m and
// 1h resolution, any query range and maximum resolution, the blocks selected by the real
// bucketBlockSet.getFor never exceed the maximum resolution, never contain a block twice, all
// overlap the query range, and together cover every instant of the range that some block of an
// allowed resolution covers — and the selection never crashes. The model's query (mint, maxt,
// maximum resolution) is tried first on a few layouts, then a random grid.

import (
	"encoding/json"
	"fmt"
	"math/rand"
	"os"
	"strconv"
	"strings"
	"testing"

	"github.com/oklog/ulid/v2"
	"github.com/prometheus/prometheus/model/labels"
	"github.com/prometheus/prometheus/tsdb"

	"github.com/thanos-io/thanos/pkg/block/metadata"
	"github.com/thanos-io/thanos/pkg/compact/downsample"
)

type c15blk struct {
	mint, maxt, res int64
}

func c15run(blks []c15blk, mint, maxt, maxRes int64, msgs *[]string) {
	add := func(s string) {
		if len(*msgs) < 4 {
			*msgs = append(*msgs, fmt.Sprintf("blocks %v, query [%d,%d] max resolution %d: %s", blks, mint, maxt, maxRes, s))
		}
	}
	set := newBucketBlockSet(labels.EmptyLabels())
	for i, b := range blks {
		m := &metadata.Meta{BlockMeta: tsdb.BlockMeta{ULID: ulid.MustNew(uint64(i+1), nil), MinTime: b.mint, MaxTime: b.maxt}}
		m.Thanos.Downsample.Resolution = b.res
		if err := set.add(&bucketBlock{meta: m}); err != nil {
			return
		}
	}
	var got []*bucketBlock
	func() {
		defer func() {
			if r := recover(); r != nil {
				add(fmt.Sprintf("block selection crashed: %v", r))
				got = nil
			}
		}()
		got = set.getFor(mint, maxt, maxRes, nil)
	}()
	seen := map[ulid.ULID]bool{}
	for _, b := range got {
		if b.meta.Thanos.Downsample.Resolution > maxRes {
			add(fmt.Sprintf("selected block [%d,%d) has resolution %d", b.meta.MinTime, b.meta.MaxTime, b.meta.Thanos.Downsample.Resolution))
		}
		if seen[b.meta.ULID] {
			add(fmt.Sprintf("block [%d,%d) selected twice", b.meta.MinTime, b.meta.MaxTime))
		}
		seen[b.meta.ULID] = true
		if !(b.meta.MaxTime > mint && b.meta.MinTime <= maxt) {
			add(fmt.Sprintf("selected block [%d,%d) does not overlap the query range", b.meta.MinTime, b.meta.MaxTime))
		}
	}
	if mint > maxt {
		return
	}
	for t := mint; t <= maxt && t-mint < 400; t++ {
		allowed := false
		for _, b := range blks {
			if b.res <= maxRes && b.mint <= t && t < b.maxt {
				allowed = true
			}
		}
		covered := false
		for _, b := range got {
			if b.meta.MinTime <= t && t < b.meta.MaxTime {
				covered = true
			}
		}
		if allowed && !covered {
			add(fmt.Sprintf("instant %d is covered by a block of an allowed resolution but by no selected block", t))
			return
		}
	}
}

func TestGovcReplay(t *testing.T) {
	data, err := os.ReadFile(os.Getenv("GOVC_REPLAY_FILE"))
	if err != nil {
		t.Skip("no replay file")
	}
	var r struct {
		Model map[string]string `json:"model"`
	}
	_ = json.Unmarshal(data, &r)
	geti := func(k string, def int64) int64 {
		if n, err := strconv.ParseInt(strings.TrimSpace(r.Model[k]), 10, 64); err == nil {
			return n
		}
		return def
	}
	var msgs []string
	r0, r1, r2 := int64(downsample.ResLevel0), int64(downsample.ResLevel1), int64(downsample.ResLevel2)
	layouts := [][]c15blk{
		{{0, 100, r0}, {100, 200, r0}, {0, 200, r1}},
		{{0, 40, r2}, {40, 80, r1}, {80, 100, r0}},
		{{0, 100, r0}},
		{},
	}
	mm, mx, mr := geti("mint", 0), geti("maxt", 50), geti("maxResolutionMillis", r1)
	if mx-mm > 1000 || mx-mm < -1000 {
		mm, mx = 0, 50
	}
	for _, l := range layouts {
		c15run(l, mm, mx, mr, &msgs)
		c15run(l, 0, 150, -1, &msgs)
	}
	rnd := rand.New(rand.NewSource(5))
	ress := []int64{r0, r1, r2}
	for i := 0; i < 600; i++ {
		var blks []c15blk
		for k := 0; k < rnd.Intn(7); k++ {
			a := int64(rnd.Intn(10)) * 20
			blks = append(blks, c15blk{a, a + int64(1+rnd.Intn(4))*20, ress[rnd.Intn(3)]})
		}
		a := int64(rnd.Intn(220))
		maxRes := []int64{r0, r1, r2, r1 - 1, r2 + 5}[rnd.Intn(5)]
		c15run(blks, a, a+int64(rnd.Intn(120)), maxRes, &msgs)
	}
	if len(msgs) > 0 {
		fmt.Println("REPLAY: reproduced:", strings.Join(msgs, "; "))
		t.Fail()
		return
	}
	fmt.Println("REPLAY: not reproduced")
}
