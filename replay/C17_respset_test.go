package store

// Replay harness for C17, response-set part (injected with `go test -overlay`): a response set must
// not give its shard matcher's buffer back to the shared pool while the goroutine that receives
// from the store — and writes that buffer for every frame — is still running. A failed ordering
// obligation has no input-level model (the failing thing is a schedule), so the harness builds that
// schedule on the real lazy and eager response sets: the store's Recv is held open, the set is
// closed (a request that ends early: limit reached, client gone), and the pool is watched until
// Recv is released. A Put observed while Recv is still blocked is the reproduced violation.

import (
	"fmt"
	"io"
	"os"
	"runtime"
	"strings"
	"sync"
	"sync/atomic"
	"testing"
	"time"

	"github.com/prometheus/client_golang/prometheus"

	"github.com/thanos-io/thanos/pkg/store/storepb"
)

type c17Client struct {
	storepb.Store_SeriesClient
	entered chan struct{}
	release chan struct{}
	once    sync.Once
	calls   atomic.Int32
}

func (c *c17Client) Recv() (*storepb.SeriesResponse, error) {
	c.once.Do(func() { close(c.entered) })
	<-c.release
	if c.calls.Add(1) == 1 {
		return storepb.NewSeriesResponse(&storepb.Series{}), nil // a frame that was already in flight
	}
	return nil, io.EOF
}
func (c *c17Client) CloseSend() error { return nil }

// c17Pool wraps what the matcher sees of a sync.Pool: the matcher only calls Get and Put on the
// *sync.Pool, so returns are observed by emptying the pool (single taker, same goroutine as the
// observer) — Get on an empty pool calls New, which is counted.
func c17Try(kind string) string {
	// with one P whatever is put into a sync.Pool is visible to the next Get (no per-P private slot
	// of another processor hides it)
	defer runtime.GOMAXPROCS(runtime.GOMAXPROCS(1))
	var news atomic.Int32
	pool := &sync.Pool{New: func() any {
		news.Add(1)
		b := make([]byte, 0, 1024)
		return &b
	}}
	info := &storepb.ShardInfo{ShardIndex: 0, TotalShards: 2, By: true, Labels: []string{"a"}}
	m := info.Matcher(pool)
	cl := &c17Client{entered: make(chan struct{}), release: make(chan struct{})}
	cnt := prometheus.NewCounter(prometheus.CounterOpts{Name: "c17_replay_" + kind})
	var rs respSet
	if kind == "lazy" {
		rs = newLazyRespSet(0, "s", nil, func() {}, cl, m, true, cnt, 1, nil)
	} else {
		rs = newEagerRespSet(0, "s", nil, func() {}, cl, m, true, cnt, nil, nil)
	}
	select {
	case <-cl.entered:
	case <-time.After(5 * time.Second):
		close(cl.release)
		return ""
	}
	closed := make(chan struct{})
	go func() { rs.Close(); close(closed) }()
	// while Recv is still blocked, the buffer must not be obtainable from the pool
	msg := ""
	deadline := time.Now().Add(400 * time.Millisecond)
	for time.Now().Before(deadline) && msg == "" {
		before := news.Load()
		b := pool.Get().(*[]byte)
		if news.Load() == before {
			msg = fmt.Sprintf("%s response set closed while its store stream is still delivering: the shard matcher's buffer is already back in the pool (a second request is handed it) although the receiving goroutine has not finished and will write it for the frame in flight", kind)
			_ = b
		}
		time.Sleep(10 * time.Millisecond)
	}
	close(cl.release)
	select {
	case <-closed:
	case <-time.After(5 * time.Second):
	}
	return msg
}

func TestGovcReplay(t *testing.T) {
	if _, err := os.ReadFile(os.Getenv("GOVC_REPLAY_FILE")); err != nil {
		t.Skip("no replay file")
	}
	var msgs []string
	for _, kind := range []string{"lazy", "eager"} {
		if m := c17Try(kind); m != "" {
			msgs = append(msgs, m)
		}
	}
	if len(msgs) > 0 {
		fmt.Println("REPLAY: reproduced:", strings.Join(msgs, "; "))
		t.Fail()
		return
	}
	fmt.Println("REPLAY: not reproduced")
}
