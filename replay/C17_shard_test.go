package storepb

// Replay harness for C17, shard-matcher part (injected with `go test -overlay`): a buffer taken
// from the shared pool for one request must go back to the pool at most once, however often the
// matcher is closed (the proxy closes a response set's matcher when the merge tree has exhausted
// the set and again in the request's deferred Close). The pool here counts what is put into it.

import (
	"fmt"
	"os"
	"sync"
	"testing"
)

func TestGovcReplay(t *testing.T) {
	if _, err := os.ReadFile(os.Getenv("GOVC_REPLAY_FILE")); err != nil {
		t.Skip("no replay file")
	}
	created := 0
	pool := &sync.Pool{New: func() interface{} {
		created++
		b := make([]byte, 0, 128)
		return &b
	}}
	info := &ShardInfo{ShardIndex: 0, TotalShards: 2, By: true, Labels: []string{"a"}}
	m := info.Matcher(pool)
	if m == nil || m.buf == nil {
		fmt.Println("REPLAY: not reproduced")
		return
	}
	held := m.buf
	m.Close() // the merge tree has exhausted the response set
	m.Close() // the request's deferred Close
	// take everything back out of the pool: the buffer must come out at most once
	seen := 0
	for i := 0; i < 4; i++ {
		if b := pool.Get().(*[]byte); b == held {
			seen++
		}
	}
	if seen > 1 {
		fmt.Printf("REPLAY: reproduced: a sharded request's matcher closed twice (merge tree exhaustion + deferred Close) returns its buffer to the pool %d times: two later requests are handed the same buffer\n", seen)
		t.Fail()
		return
	}
	fmt.Println("REPLAY: not reproduced")
}
