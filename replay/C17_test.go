package pool

// Replay harness for C17, pool part (injected with `go test -overlay`). Evaluates the property
// statement on the real BucketedPool: while buffers are checked out the pool never reports more
// than its configured budget, the reported usage is the sum of the capacities checked out, and
// usage returns to zero once everything is returned. The model's request size / budget are tried
// first, then a small grid of budgets and request sequences around bucket boundaries.

import (
	"encoding/json"
	"fmt"
	"os"
	"strconv"
	"strings"
	"testing"
)

type govcReplay struct {
	Obligation string            `json:"obligation"`
	Function   string            `json:"function"`
	Model      map[string]string `json:"model"`
}

func govcRun(budget uint64, reqs []int) string {
	p, err := NewBucketedPool[byte](10, 100, 2, budget) // buckets 10, 20, 40, 80
	if err != nil {
		return ""
	}
	var out []*[]byte
	var sum uint64
	for _, sz := range reqs {
		b, err := p.Get(sz)
		if err != nil {
			continue
		}
		if b == nil {
			return fmt.Sprintf("Get(%d) returned nil without error", sz)
		}
		out = append(out, b)
		sum += uint64(cap(*b))
		if used := p.UsedBytes(); used != sum {
			return fmt.Sprintf("budget %d, requests %v: pool reports %d bytes used, %d bytes of capacity are checked out", budget, reqs, used, sum)
		}
		if budget > 0 && p.UsedBytes() > budget {
			return fmt.Sprintf("budget %d, requests %v: %d bytes checked out in %d buffers exceed the budget", budget, reqs, p.UsedBytes(), len(out))
		}
	}
	for _, b := range out {
		p.Put(b)
	}
	if used := p.UsedBytes(); used != 0 {
		return fmt.Sprintf("budget %d, requests %v: usage is %d after returning every buffer", budget, reqs, used)
	}
	return ""
}

func govcRunReuse(budget uint64, a, b, c int) string {
	p, err := NewBucketedPool[byte](10, 100, 2, budget) // buckets 10, 20, 40, 80
	if err != nil {
		return ""
	}
	first, err := p.Get(a)
	if err != nil {
		return ""
	}
	p.Put(first)
	if used := p.UsedBytes(); used != 0 {
		return fmt.Sprintf("budget %d: usage is %d after Get(%d) and returning it", budget, used, a)
	}
	var sum uint64
	for _, sz := range []int{b, c} {
		x, err := p.Get(sz)
		if err != nil {
			continue
		}
		sum += uint64(cap(*x))
		if sum > budget || p.UsedBytes() != sum {
			return fmt.Sprintf("budget %d, history Get(%d) Put Get(%d) Get(%d): %d bytes of capacity are checked out (pool reports %d), more than the budget", budget, a, b, c, sum, p.UsedBytes())
		}
	}
	return ""
}

func TestGovcReplay(t *testing.T) {
	data, err := os.ReadFile(os.Getenv("GOVC_REPLAY_FILE"))
	if err != nil {
		t.Skip("no replay file")
	}
	var r govcReplay
	_ = json.Unmarshal(data, &r)
	var msgs []string
	try := func(budget uint64, reqs []int) {
		if m := govcRun(budget, reqs); m != "" && len(msgs) < 3 {
			msgs = append(msgs, m)
		}
	}
	if sz, err := strconv.Atoi(strings.TrimSpace(r.Model["sz"])); err == nil && sz >= 0 && sz < 1<<20 {
		if mt, err := strconv.ParseUint(strings.TrimSpace(r.Model["p.maxTotal"]), 10, 64); err == nil {
			try(mt, []int{sz})
			try(mt, []int{sz, sz})
		}
	}
	sizes := []int{1, 9, 10, 11, 20, 21, 39, 40, 41, 80, 81, 100, 150}
	for _, budget := range []uint64{0, 30, 50, 79, 80, 100, 120, 200} {
		for _, a := range sizes {
			try(budget, []int{a})
			for _, b := range sizes {
				try(budget, []int{a, b})
				try(budget, []int{a, b, a})
			}
		}
	}
	// histories with a return in the middle: Get(a), Put it back, then Get(b), Get(c) — what was
	// returned is handed out again, and the budget must still bound what is checked out
	for _, budget := range []uint64{100, 120, 200, 260} {
		for _, a := range sizes {
			for _, b := range sizes {
				for _, c := range sizes {
					if m := govcRunReuse(budget, a, b, c); m != "" && len(msgs) < 3 {
						msgs = append(msgs, m)
					}
				}
			}
		}
	}
	if len(msgs) > 0 {
		fmt.Println("REPLAY: reproduced:", strings.Join(msgs, "; "))
		t.Fail()
		return
	}
	fmt.Println("REPLAY: not reproduced")
}
