package labelpb

// Replay harness for C18, hashing part (injected with `go test -overlay`): the hash that places a
// series on the ring must be a function of (prefix, labels) alone. The real HashWithPrefix is
// called for label sets below and above its 1KB stack buffer, with other large series hashed in
// between, and every result is compared with the hash of the byte string the function is
// documented to hash (prefix, separator, then name/value pairs each followed by the separator).

import (
	"fmt"
	"os"
	"strings"
	"testing"

	"github.com/cespare/xxhash/v2"
)

func c18Ref(prefix string, lbls []ZLabel) uint64 {
	var b []byte
	b = append(b, prefix...)
	b = append(b, 0xff)
	for _, l := range lbls {
		b = append(b, l.Name...)
		b = append(b, 0xff)
		b = append(b, l.Value...)
		b = append(b, 0xff)
	}
	return xxhash.Sum64(b)
}

func c18Series(n, width int, tag string) []ZLabel {
	out := make([]ZLabel, 0, n)
	for i := 0; i < n; i++ {
		out = append(out, ZLabel{Name: fmt.Sprintf("label_%s_%03d", tag, i), Value: strings.Repeat(tag, width)})
	}
	return out
}

func TestGovcReplay(t *testing.T) {
	if _, err := os.ReadFile(os.Getenv("GOVC_REPLAY_FILE")); err != nil {
		t.Skip("no replay file")
	}
	var msgs []string
	var all [][]ZLabel
	for _, n := range []int{1, 5, 20, 40, 80} {
		for _, w := range []int{1, 10, 60, 300} {
			all = append(all, c18Series(n, w, "a"), c18Series(n, w, "b"))
		}
	}
	for round := 0; round < 3; round++ {
		for k, s := range all {
			for _, prefix := range []string{"", "tenant-a", "tenant-b"} {
				got, want := HashWithPrefix(prefix, s), c18Ref(prefix, s)
				if got != want && len(msgs) < 3 {
					size := 0
					for _, l := range s {
						size += len(l.Name) + len(l.Value) + 2
					}
					msgs = append(msgs, fmt.Sprintf("series #%d (%d labels, %d bytes) with prefix %q hashes to %d in round %d, the hash of its bytes is %d: the result depends on what was hashed before", k, len(s), size, prefix, got, round, want))
				}
			}
		}
	}
	if len(msgs) > 0 {
		fmt.Println("REPLAY: reproduced:", strings.Join(msgs, "; "))
		t.Fail()
		return
	}
	fmt.Println("REPLAY: not reproduced")
}
