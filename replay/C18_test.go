package receive

// Replay harness for C18 (injected with `go test -overlay`): the endpoints chosen for replicas
// n = 0 .. RF-1 of a series must be pairwise distinct. A failed obligation of the hashmod placement
// has a model in which the series hash lies within RF of 2^64 (hash + n wraps around). xxhash is not
// a cryptographic hash: the harness CONSTRUCTS a label value whose HashWithPrefix is exactly the
// wanted hash (inverting the last 8-byte round, the trailing-byte round and the avalanche of xxhash64
// for a 17-byte input), so the model is replayed on the real hashring with a real series. It also
// checks distinctness for ordinary series on hashmod and ketama rings.

import (
	"fmt"
	"math/bits"
	"os"
	"strings"
	"testing"

	"github.com/thanos-io/thanos/pkg/store/labelpb"
	"github.com/thanos-io/thanos/pkg/store/storepb/prompb"
)

const (
	c18p1 uint64 = 11400714785074694791
	c18p2 uint64 = 14029467366897019727
	c18p3 uint64 = 1609587929392839161
	c18p4 uint64 = 9650029242287828579
	c18p5 uint64 = 2870177450012600261
)

func c18inv(a uint64) uint64 { // inverse of an odd number modulo 2^64
	x := a
	for i := 0; i < 6; i++ {
		x *= 2 - a*x
	}
	return x
}

func c18unxorshift(y uint64, s uint) uint64 {
	x := y
	for i := 0; i < 64/int(s)+1; i++ {
		x = y ^ (x >> s)
	}
	return x
}

// c18series builds a series {a="<13 bytes>"} of tenant "" whose HashWithPrefix equals target.
func c18series(target uint64) *prompb.TimeSeries {
	// hashed bytes: ff 'a' ff v0..v12 ff  (17 bytes): chunk0 = ff 61 ff v0..v4, chunk1 = v5..v12, tail = ff
	val := []byte("xxxxx________")
	round := func(acc, in uint64) uint64 { return bits.RotateLeft64(acc+in*c18p2, 31) * c18p1 }
	le := func(b []byte) uint64 {
		var u uint64
		for i := 7; i >= 0; i-- {
			u = u<<8 | uint64(b[i])
		}
		return u
	}
	chunk0 := append([]byte{0xff, 'a', 0xff}, val[:5]...)
	h := c18p5 + 17
	h ^= round(0, le(chunk0))
	h = bits.RotateLeft64(h, 27)*c18p1 + c18p4
	// invert from the target
	t := target
	t = c18unxorshift(t, 32)
	t *= c18inv(c18p3)
	t = c18unxorshift(t, 29)
	t *= c18inv(c18p2)
	t = c18unxorshift(t, 33) // value before the avalanche
	t = bits.RotateLeft64(t*c18inv(c18p1), -11)
	ff := uint64(0xff)
	t ^= ff * c18p5 // value before the trailing byte
	t = bits.RotateLeft64((t-c18p4)*c18inv(c18p1), -27)
	r := t ^ h // round(0, k1)
	k1 := bits.RotateLeft64(r*c18inv(c18p1), -31) * c18inv(c18p2)
	for i := 0; i < 8; i++ {
		val[5+i] = byte(k1 >> (8 * uint(i)))
	}
	return &prompb.TimeSeries{Labels: []labelpb.ZLabel{{Name: "a", Value: string(val)}}}
}

func TestGovcReplay(t *testing.T) {
	if _, err := os.ReadFile(os.Getenv("GOVC_REPLAY_FILE")); err != nil {
		t.Skip("no replay file")
	}
	var msgs []string
	check := func(h Hashring, desc string, ts *prompb.TimeSeries, rf int) {
		seen := map[string]int{}
		for n := 0; n < rf; n++ {
			e, err := h.GetN("", ts, uint64(n))
			if err != nil {
				return
			}
			if m, dup := seen[e.Address]; dup && len(msgs) < 4 {
				msgs = append(msgs, fmt.Sprintf("%s, series hash %d: replicas %d and %d are both placed on %s", desc, labelpb.HashWithPrefix("", ts.Labels), m, n, e.Address))
			}
			seen[e.Address] = n
		}
	}
	for _, nodes := range []int{3, 5, 6, 7} {
		var eps []Endpoint
		for i := 0; i < nodes; i++ {
			eps = append(eps, Endpoint{Address: fmt.Sprintf("node-%d:10901", i)})
		}
		hm, err := newSimpleHashring(eps)
		if err != nil {
			t.Fatal(err)
		}
		kt, err := newKetamaHashring(eps, 16, uint64(nodes))
		if err != nil {
			t.Fatal(err)
		}
		for _, target := range []uint64{1<<64 - 1, 1<<64 - 2, 1<<64 - 3, 0, 12345} {
			ts := c18series(target)
			if got := labelpb.HashWithPrefix("", ts.Labels); got != target {
				t.Fatalf("harness: constructed series has hash %d, wanted %d", got, target)
			}
			check(hm, fmt.Sprintf("hashmod ring of %d endpoints", nodes), ts, nodes)
			check(kt, fmt.Sprintf("ketama ring of %d endpoints", nodes), ts, nodes)
		}
		for i := 0; i < 200; i++ {
			ts := &prompb.TimeSeries{Labels: []labelpb.ZLabel{{Name: "a", Value: fmt.Sprint(i)}}}
			check(hm, fmt.Sprintf("hashmod ring of %d endpoints", nodes), ts, nodes)
			check(kt, fmt.Sprintf("ketama ring of %d endpoints", nodes), ts, nodes)
		}
	}
	// placement must not depend on the order the endpoints are listed in: the same endpoints
	// (some sharing one Cap'n Proto address, as in a file-loaded default) reversed, rotated, interleaved
	for _, nodes := range []int{3, 4, 7} {
		var eps []Endpoint
		for i := 0; i < nodes; i++ {
			eps = append(eps, Endpoint{Address: fmt.Sprintf("node-%d:10901", i), CapNProtoAddress: "shared:19391"})
		}
		orders := map[string][]Endpoint{"listed in address order": append([]Endpoint(nil), eps...)}
		rev := append([]Endpoint(nil), eps...)
		for i, j := 0, len(rev)-1; i < j; i, j = i+1, j-1 {
			rev[i], rev[j] = rev[j], rev[i]
		}
		orders["reversed"] = rev
		orders["rotated"] = append(append([]Endpoint(nil), eps[1:]...), eps[0])
		var inter []Endpoint
		for i := 0; i < nodes; i += 2 {
			inter = append(inter, eps[i])
		}
		for i := 1; i < nodes; i += 2 {
			inter = append(inter, eps[i])
		}
		orders["interleaved"] = inter
		for _, algo := range []string{"hashmod", "ketama"} {
			place := map[string]string{}
			for name, list := range orders {
				var h Hashring
				var err error
				if algo == "hashmod" {
					h, err = newSimpleHashring(append([]Endpoint(nil), list...))
				} else {
					h, err = newKetamaHashring(append([]Endpoint(nil), list...), 16, uint64(nodes))
				}
				if err != nil {
					continue
				}
				var got []string
				for i := 0; i < 40; i++ {
					ts := &prompb.TimeSeries{Labels: []labelpb.ZLabel{{Name: "a", Value: fmt.Sprint(i)}}}
					for n := 0; n < 2 && n < nodes; n++ {
						e, err := h.GetN("tenant", ts, uint64(n))
						if err == nil {
							got = append(got, e.Address)
						}
					}
				}
				place[name] = strings.Join(got, ",")
			}
			ref := place["listed in address order"]
			for name, g := range place {
				if g != ref && len(msgs) < 4 {
					msgs = append(msgs, fmt.Sprintf("%s ring of %d endpoints: with the endpoints %s the series are placed differently than with the same endpoints listed in address order", algo, nodes, name))
				}
			}
		}
	}
	if len(msgs) > 0 {
		fmt.Println("REPLAY: reproduced:", strings.Join(msgs, "; "))
		t.Fail()
		return
	}
	fmt.Println("REPLAY: not reproduced")
}
