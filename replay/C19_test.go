package receive

// Replay harness for C19 (injected with `go test -overlay`): building a ketama hashring from any
// configuration must return — a hashring or an error — in bounded time. A failed `decreases`
// obligation of the replica walk has no input-level model (its model is a state in the middle of the
// walk), so the harness evaluates the property statement on the real constructor over every zone
// layout of up to 8 endpoints in up to 3 zones and every replication factor up to the endpoint
// count, each under a watchdog; a construction that does not return within the deadline is the
// reproduced violation. For layouts that do return a ring, every section must own exactly RF
// pairwise distinct endpoints.

import (
	"fmt"
	"os"
	"strings"
	"testing"
	"time"
)

func TestGovcReplay(t *testing.T) {
	if _, err := os.ReadFile(os.Getenv("GOVC_REPLAY_FILE")); err != nil {
		t.Skip("no replay file")
	}
	var msgs []string
	hangs := 0
	try := func(zones []int, rf int) {
		if hangs >= 2 {
			return // every hang leaves a spinning goroutine behind
		}
		var eps []Endpoint
		for z, n := range zones {
			for k := 0; k < n; k++ {
				eps = append(eps, Endpoint{Address: fmt.Sprintf("node-%d-%d:10901", z, k), AZ: fmt.Sprintf("zone-%d", z)})
			}
		}
		if rf > len(eps) {
			return
		}
		type res struct {
			h   *ketamaHashring
			err error
		}
		done := make(chan res, 1)
		go func() {
			h, err := newKetamaHashring(eps, 8, uint64(rf))
			done <- res{h, err}
		}()
		select {
		case r := <-done:
			if r.err != nil {
				return // an error in bounded time is allowed
			}
			for i, s := range r.h.sections {
				seen := map[uint64]bool{}
				for _, e := range s.replicas {
					seen[e] = true
				}
				if (len(s.replicas) != rf || len(seen) != rf) && len(msgs) < 4 {
					msgs = append(msgs, fmt.Sprintf("zones %v RF %d: section %d owns %d replicas (%d distinct), want %d distinct", zones, rf, i, len(s.replicas), len(seen), rf))
				}
			}
		case <-time.After(3 * time.Second):
			hangs++
			msgs = append(msgs, fmt.Sprintf("zones %v (endpoints per availability zone) RF %d: newKetamaHashring did not return within 3s", zones, rf))
		}
	}
	for a := 1; a <= 4; a++ {
		for rf := 1; rf <= a; rf++ {
			try([]int{a}, rf)
		}
		for b := 1; b <= 4; b++ {
			for rf := 1; rf <= a+b; rf++ {
				try([]int{a, b}, rf)
			}
			for c := 1; c <= 2; c++ {
				for rf := 1; rf <= a+b+c; rf++ {
					try([]int{a, b, c}, rf)
				}
			}
		}
	}
	if len(msgs) > 0 {
		fmt.Println("REPLAY: reproduced:", strings.Join(msgs, "; "))
		t.Fail()
		return
	}
	fmt.Println("REPLAY: not reproduced")
}
