package receive

// Replay harness for C22 (injected with `go test -overlay`).

import (
	"encoding/json"
	"fmt"
	"os"
	"strconv"
	"strings"
	"testing"
)

type govcReplay struct {
	Property   string            `json:"property"`
	Obligation string            `json:"obligation"`
	Function   string            `json:"function"`
	Model      map[string]string `json:"model"`
}

func govcLoad(t *testing.T) *govcReplay {
	data, err := os.ReadFile(os.Getenv("GOVC_REPLAY_FILE"))
	if err != nil {
		t.Skip("no replay file")
	}
	var r govcReplay
	if err := json.Unmarshal(data, &r); err != nil {
		t.Fatal(err)
	}
	return &r
}

func (r *govcReplay) i64(name string) int64 {
	v, err := strconv.ParseInt(strings.TrimSpace(r.Model[name]), 10, 64)
	if err != nil {
		return 0
	}
	return v
}

func (r *govcReplay) ints(name string, max int) []int {
	n := int(r.i64("len(" + name + ")"))
	if n < 0 {
		n = 0
	}
	if n > max {
		n = max
	}
	out := make([]int, n)
	for i := range out {
		out[i] = int(r.i64(fmt.Sprintf("%s[%d]", name, i)))
	}
	return out
}

func TestGovcReplay(t *testing.T) {
	r := govcLoad(t)
	var msgs []string
	switch {
	case strings.HasSuffix(r.Function, "writeQuorum"):
		rf := uint64(r.i64("let RF"))
		if rf >= 1 && rf < 1<<31 {
			h := &Handler{options: &Options{ReplicationFactor: rf}}
			q := h.writeQuorum()
			// statement: an acknowledged write reached a quorum — more than half of the replicas
			// (RF 2 is the documented exception with quorum 1), never more than RF.
			if q < 1 || uint64(q) > rf || (rf != 2 && 2*uint64(q) <= rf) || (rf == 2 && q != 1) {
				msgs = append(msgs, fmt.Sprintf("writeQuorum()=%d for replication factor %d is not a quorum", q, rf))
			}
		}
	case strings.HasSuffix(r.Function, "canReturnEarly"):
		succ := r.ints("successes", 6)
		conf := r.ints("conflictFailures", 6)
		for len(conf) < len(succ) {
			conf = append(conf, 0)
		}
		st, ft := int(r.i64("successThreshold")), int(r.i64("failureThreshold"))
		want := true
		for i := range succ {
			if succ[i] < st && conf[i] < ft {
				want = false
			}
		}
		if got := canReturnEarly(succ, conf, st, ft); got != want {
			msgs = append(msgs, fmt.Sprintf("canReturnEarly(%v,%v,%d,%d)=%v, but every-series-determined is %v", succ, conf, st, ft, got, want))
		}
	}
	if len(msgs) > 0 {
		fmt.Println("REPLAY: reproduced:", strings.Join(msgs, "; "))
		t.Fail()
		return
	}
	fmt.Println("REPLAY: not reproduced")
}
