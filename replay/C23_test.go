package receive

// Replay harness for C23 (injected with `go test -overlay`): the property statement evaluated on
// the real handlers. For replication factors 1..6 (the model's replication factor first) and every
// multiset of per-replica outcomes (success, conflict, unavailable), a write request is sent to
// every node of a real hashring of real handlers with fake appenders (the suite's own
// newTestHandlerHashring), and the HTTP status is compared with the statement: with quorum st
// (writeQuorum) and failureThreshold ft = RF - st + 1, a request whose failures are conflicts and
// unavailable replicas only never gets a 500; it gets 409 only if the conflicts alone reach ft;
// otherwise, if it fails, 503; and every node answers the same.

import (
	"encoding/json"
	"fmt"
	"net/http"
	"os"
	"strconv"
	"strings"
	"testing"

	"github.com/pkg/errors"
	"github.com/prometheus/prometheus/storage"

	"github.com/thanos-io/thanos/pkg/store/storepb/prompb"
)

func TestGovcReplay(t *testing.T) {
	data, err := os.ReadFile(os.Getenv("GOVC_REPLAY_FILE"))
	if err != nil {
		t.Skip("no replay file")
	}
	var r struct {
		Model map[string]string `json:"model"`
	}
	_ = json.Unmarshal(data, &r)
	rfs := []int{1, 2, 3, 4, 5, 6}
	for k, v := range r.Model {
		if strings.Contains(k, "ReplicationFactor") {
			if n, err := strconv.Atoi(strings.TrimSpace(v)); err == nil && n >= 1 && n <= 6 {
				rfs = append([]int{n}, rfs...)
			}
		}
	}
	conflict := func() error { return storage.ErrOutOfBounds }
	unavailable := func() error { return errors.New("failed to commit") }
	wreq := &prompb.WriteRequest{Timeseries: makeSeriesWithValues(5)}
	var msgs []string
	done := map[int]bool{}
	for _, rf := range rfs {
		if done[rf] {
			continue
		}
		done[rf] = true
		st := rf/2 + 1
		if rf == 2 {
			st = 1
		}
		ft := rf - st + 1
		for nC := 0; nC <= rf; nC++ {
			for nU := 0; nC+nU <= rf; nU++ {
				var apps []*fakeAppendable
				for i := 0; i < rf; i++ {
					switch {
					case i < nC:
						apps = append(apps, &fakeAppendable{appender: newFakeAppender(conflict, nil, nil)})
					case i < nC+nU:
						apps = append(apps, &fakeAppendable{appender: newFakeAppender(nil, unavailable, nil)})
					default:
						apps = append(apps, &fakeAppendable{appender: newFakeAppender(nil, nil, nil)})
					}
				}
				handlers, _, closeFn, err := newTestHandlerHashring(fmt.Sprintf("c23-%d-%d-%d", rf, nC, nU), apps, uint64(rf), AlgorithmHashmod, false)
				if err != nil {
					t.Fatal(err)
				}
				codes := map[int]int{}
				for _, h := range handlers {
					rec, err := makeRequest(h, "test", wreq)
					if err != nil {
						t.Fatal(err)
					}
					codes[rec.Code]++
				}
				_ = closeFn()
				for _, h := range handlers {
					h.Close()
				}
				nOK := rf - nC - nU
				what := fmt.Sprintf("replication factor %d (quorum %d, failure threshold %d), replicas: %d ok, %d conflict, %d unavailable: statuses by receiving node %v", rf, st, ft, nOK, nC, nU, codes)
				bad := ""
				switch {
				case codes[http.StatusInternalServerError] > 0:
					bad = "a failure made only of conflicts and unavailable replicas is answered with 500"
				case len(codes) > 1:
					bad = "the outcome depends on the receiving node / response order"
				case nOK >= st && codes[http.StatusOK] == 0:
					bad = "quorum reached but the request is not answered with 200"
				case nOK < st && codes[http.StatusConflict] > 0 && nC < ft:
					bad = "409 although the conflicts alone do not make the quorum impossible (a retry can succeed)"
				case nOK < st && nC < ft && codes[http.StatusServiceUnavailable] == 0:
					bad = "a failure that a retry can fix is not answered with 503"
				}
				if bad != "" && len(msgs) < 4 {
					msgs = append(msgs, what+": "+bad)
				}
			}
		}
	}
	if len(msgs) > 0 {
		fmt.Println("REPLAY: reproduced:", strings.Join(msgs, "; "))
		t.Fail()
		return
	}
	fmt.Println("REPLAY: not reproduced")
}
