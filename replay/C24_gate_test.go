package gate

// Replay harness for C24, gate part (injected with `go test -overlay`): the write gate the receiver
// uses is a limiter gate behind three instrumentation wrappers; a wrapper must hand the gate's
// contract through — a Start that fails holds and frees nothing, Done frees exactly one slot. The
// harness builds the real wrapped gate for capacities 1..3, fills it, lets one more request give
// up while queued (cancelled context), and then checks that the gate is still full: a further
// request must not get in until a holder is done, and after every holder is done exactly
// `capacity` requests get in again.

import (
	"context"
	"fmt"
	"os"
	"strings"
	"testing"
	"time"

	"github.com/prometheus/client_golang/prometheus"
)

func c24Full(g Gate) bool {
	ctx, cancel := context.WithTimeout(context.Background(), 30*time.Millisecond)
	defer cancel()
	if g.Start(ctx) == nil {
		return false
	}
	return true
}

func TestGovcReplay(t *testing.T) {
	if _, err := os.ReadFile(os.Getenv("GOVC_REPLAY_FILE")); err != nil {
		t.Skip("no replay file")
	}
	var msgs []string
	for capacity := 1; capacity <= 3; capacity++ {
		capacity := capacity
		func() {
			defer func() {
				if r := recover(); r != nil {
					msgs = append(msgs, fmt.Sprintf("capacity %d: a request that gave up at the full gate made the limiter panic (%v): a failed Start released a slot it never held", capacity, r))
				}
			}()
			c24Scenario(capacity, &msgs)
		}()
	}
	if len(msgs) > 0 {
		fmt.Println("REPLAY: reproduced:", strings.Join(msgs, "; "))
		t.Fail()
		return
	}
	fmt.Println("REPLAY: not reproduced")
}

func c24Scenario(capacity int, pmsgs *[]string) {
	msgs := *pmsgs
	defer func() { *pmsgs = msgs }()
	for once := true; once; once = false {
		g := New(prometheus.NewRegistry(), capacity, WriteRequests)
		for i := 0; i < capacity; i++ {
			if err := g.Start(context.Background()); err != nil {
				msgs = append(msgs, fmt.Sprintf("capacity %d: request %d was refused by an empty gate", capacity, i+1))
			}
		}
		if !c24Full(g) {
			msgs = append(msgs, fmt.Sprintf("capacity %d: a request got in although %d are in flight", capacity, capacity))
			continue
		}
		// a request gives up while queued at the full gate
		ctx, cancel := context.WithCancel(context.Background())
		cancel()
		if err := g.Start(ctx); err == nil {
			msgs = append(msgs, fmt.Sprintf("capacity %d: a cancelled request was admitted to a full gate", capacity))
			continue
		}
		if !c24Full(g) {
			msgs = append(msgs, fmt.Sprintf("capacity %d: after a queued request gave up (cancelled context) a further request is admitted while %d are still in flight: the failed Start freed a slot it never held", capacity, capacity))
			continue
		}
		for i := 0; i < capacity; i++ {
			g.Done()
		}
		in := 0
		for i := 0; i < capacity+1; i++ {
			ctx, cancel := context.WithTimeout(context.Background(), 30*time.Millisecond)
			if g.Start(ctx) == nil {
				in++
			}
			cancel()
		}
		if in != capacity {
			msgs = append(msgs, fmt.Sprintf("capacity %d: after every holder is done %d requests are admitted", capacity, in))
		}
	}
}
