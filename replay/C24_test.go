package receive

// Replay harness for C24 (injected with `go test -overlay`). Evaluates the property statement on the
// real handler and the real gate: with a write gate of N=1 slot that is currently held, a request
// whose turn never comes (its context is already cancelled) must be rejected WITHOUT freeing the
// slot held by the in-flight request; afterwards a further Start must still have to wait. If the
// rejected request released a slot it never acquired, more than N requests can be in flight.

import (
	"bytes"
	"context"
	"fmt"
	"net/http"
	"net/http/httptest"
	"os"
	"testing"
	"time"

	"github.com/go-kit/log"

	"github.com/thanos-io/thanos/pkg/gate"
)

func govcHandlerWithGate(g gate.Gate) *Handler {
	lim, _ := NewLimiter(nil, nil, RouterIngestor, log.NewNopLogger(), time.Second)
	lim.writeGate = g
	return &Handler{logger: log.NewNopLogger(), options: &Options{TenantHeader: "THANOS-TENANT", DefaultTenantID: "default"}, Limiter: lim}
}

func govcTry(name string, serve func(h *Handler, w http.ResponseWriter, r *http.Request)) string {
	g := gate.New(nil, 1, gate.WriteRequests)
	if err := g.Start(context.Background()); err != nil { // the in-flight request holding the only slot
		return ""
	}
	h := govcHandlerWithGate(g)
	ctx, cancel := context.WithCancel(context.Background())
	cancel()
	req := httptest.NewRequest(http.MethodPost, "/api/v1/receive", bytes.NewReader(nil)).WithContext(ctx)
	rec := httptest.NewRecorder()
	var panicked interface{}
	func() {
		defer func() { panicked = recover() }()
		serve(h, rec, req)
	}()
	if panicked != nil {
		return fmt.Sprintf("%s: rejected request crashed the handler: %v", name, panicked)
	}
	// the slot is still held by the in-flight request: a new Start must not get through
	ctx2, cancel2 := context.WithTimeout(context.Background(), 100*time.Millisecond)
	defer cancel2()
	if err := g.Start(ctx2); err == nil {
		return fmt.Sprintf("%s: gate with 1 slot: after a request that never got its turn (status %d) a second request entered while the first still holds the slot", name, rec.Code)
	}
	return ""
}

// govcSwapGate is a gate whose Start returns only after a configuration reload has installed
// another gate — what happens to a request that queues at a full gate while the limits are reloaded.
type govcSwapGate struct {
	inner  gate.Gate
	reload func()
}

func (g *govcSwapGate) Start(ctx context.Context) error {
	err := g.inner.Start(ctx)
	g.reload()
	return err
}
func (g *govcSwapGate) Done() { g.inner.Done() }

type govcErrBody struct{}

func (govcErrBody) Read([]byte) (int, error) { return 0, fmt.Errorf("client went away") }

// govcReload: while a request waits in Start of gate g1, a reload installs gate g2. When the
// request ends, its slot of g1 must be free again and g2 must be untouched — the slot belongs to
// the gate object Start was called on.
func govcReload(name string, serve func(h *Handler, w http.ResponseWriter, r *http.Request)) string {
	g1 := gate.New(nil, 1, gate.WriteRequests)
	g2 := gate.New(nil, 1, gate.WriteRequests)
	h := govcHandlerWithGate(nil)
	h.Limiter.writeGate = &govcSwapGate{inner: g1, reload: func() {
		h.Limiter.Lock()
		h.Limiter.writeGate = g2 // what a reload of the limits configuration does
		h.Limiter.Unlock()
	}}
	req := httptest.NewRequest(http.MethodPost, "/api/v1/receive", govcErrBody{})
	rec := httptest.NewRecorder()
	var panicked interface{}
	func() {
		defer func() { panicked = recover() }()
		serve(h, rec, req)
	}()
	if panicked != nil {
		return fmt.Sprintf("%s: limits reloaded while a request waited at the gate: the request's Done went to the NEW gate, which never admitted it (%v)", name, panicked)
	}
	ctx, cancel := context.WithTimeout(context.Background(), 100*time.Millisecond)
	defer cancel()
	if err := g1.Start(ctx); err != nil {
		return fmt.Sprintf("%s: limits reloaded while a request waited at the gate: the request ended (status %d) but the slot it held in the gate it entered through is never given back", name, rec.Code)
	}
	return ""
}

func TestGovcReplay(t *testing.T) {
	if _, err := os.ReadFile(os.Getenv("GOVC_REPLAY_FILE")); err != nil {
		t.Skip("no replay file")
	}
	var msgs []string
	if m := govcTry("receiveHTTP", func(h *Handler, w http.ResponseWriter, r *http.Request) { h.receiveHTTP(w, r) }); m != "" {
		msgs = append(msgs, m)
	}
	if m := govcTry("receiveOTLPHTTP", func(h *Handler, w http.ResponseWriter, r *http.Request) { h.receiveOTLPHTTP(w, r) }); m != "" {
		msgs = append(msgs, m)
	}
	if m := govcReload("receiveHTTP", func(h *Handler, w http.ResponseWriter, r *http.Request) { h.receiveHTTP(w, r) }); m != "" {
		msgs = append(msgs, m)
	}
	if m := govcReload("receiveOTLPHTTP", func(h *Handler, w http.ResponseWriter, r *http.Request) { h.receiveOTLPHTTP(w, r) }); m != "" {
		msgs = append(msgs, m)
	}
	if len(msgs) > 0 {
		fmt.Println("REPLAY: reproduced:", msgs)
		t.Fail()
		return
	}
	fmt.Println("REPLAY: not reproduced")
}
