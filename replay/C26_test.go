package receive

// Replay harness for C26 (injected with `go test -overlay`).
// For a failed obligation of handleV2HTTP / translateV2ToV1 it evaluates the property statement on
// the real code: (1) a request with an out-of-range symbol reference (series label or exemplar
// label; the witness of a violated validRefs precondition) must be answered with a 4xx and must not
// panic; (2) a well-formed request must be translated field by field (labels, samples, exemplars,
// histograms incl. spans/deltas/counts), compared with an independent resolution of the symbol table.

import (
	"context"
	"encoding/json"
	"fmt"
	"net/http"
	"net/http/httptest"
	"os"
	"reflect"
	"strings"
	"testing"

	"github.com/go-kit/log"
	"github.com/gogo/protobuf/proto"

	"github.com/thanos-io/thanos/pkg/store/storepb/prompb"
	writev2 "github.com/thanos-io/thanos/pkg/store/storepb/prompb/io/prometheus/write/v2"
)

type govcReplay struct {
	Property   string            `json:"property"`
	Obligation string            `json:"obligation"`
	Function   string            `json:"function"`
	Model      map[string]string `json:"model"`
}

func govcLoad(t *testing.T) *govcReplay {
	data, err := os.ReadFile(os.Getenv("GOVC_REPLAY_FILE"))
	if err != nil {
		t.Skip("no replay file")
	}
	var r govcReplay
	if err := json.Unmarshal(data, &r); err != nil {
		t.Fatal(err)
	}
	return &r
}

func govcPostV2(req *writev2.Request) (code int, panicked interface{}) {
	buf, err := proto.Marshal(req)
	if err != nil {
		return 0, err
	}
	h := &Handler{options: &Options{}}
	rec := httptest.NewRecorder()
	hr := httptest.NewRequest(http.MethodPost, "/api/v1/receive", nil)
	func() {
		defer func() { panicked = recover() }()
		h.handleV2HTTP(context.Background(), rec, hr, buf, log.NewNopLogger(), "t", nil)
	}()
	return rec.Code, panicked
}

func govcWellFormed() *writev2.Request {
	return &writev2.Request{
		Symbols: []string{"", "__name__", "up", "job", "a", "trace", "x1", "le", "0.5"},
		Timeseries: []writev2.TimeSeries{
			{LabelsRefs: []uint32{1, 2, 3, 4}, Samples: []writev2.Sample{{Value: 1, Timestamp: 10}, {Value: 2, Timestamp: 20}},
				Exemplars: []writev2.Exemplar{{LabelsRefs: []uint32{5, 6}, Value: 3, Timestamp: 15}}},
			{LabelsRefs: []uint32{1, 2, 7, 8}, Samples: []writev2.Sample{{Value: 5, Timestamp: 30}},
				Histograms: []writev2.Histogram{{
					Count: &writev2.Histogram_CountInt{CountInt: 7}, Sum: 9.5, Schema: 2, ZeroThreshold: 0.001,
					ZeroCount:     &writev2.Histogram_ZeroCountInt{ZeroCountInt: 1},
					NegativeSpans: []writev2.BucketSpan{{Offset: -2, Length: 4}}, NegativeDeltas: []int64{1, 2, -1, 0},
					PositiveSpans: []writev2.BucketSpan{{Offset: 0, Length: 2}, {Offset: 3, Length: 3}}, PositiveDeltas: []int64{2, 1, 1, -2, 3},
					ResetHint: writev2.Histogram_RESET_HINT_NO, Timestamp: 40, CustomValues: []float64{1.5},
				}, {
					Count: &writev2.Histogram_CountFloat{CountFloat: 2.5}, Sum: 1, Schema: 0,
					ZeroCount:      &writev2.Histogram_ZeroCountFloat{ZeroCountFloat: 0.5},
					NegativeCounts: []float64{1, 1.5}, PositiveCounts: []float64{0.25}, Timestamp: 50,
					PositiveSpans: []writev2.BucketSpan{{Offset: 1, Length: 1}}, NegativeSpans: []writev2.BucketSpan{{Offset: 0, Length: 2}},
				}}},
			{LabelsRefs: []uint32{1, 2}},
		},
	}
}

func govcCheckTranslation(w *writev2.Request) []string {
	var msgs []string
	bad := func(f string, a ...interface{}) { msgs = append(msgs, fmt.Sprintf(f, a...)) }
	var out *prompb.WriteRequest
	var p interface{}
	func() {
		defer func() { p = recover() }()
		out = translateV2ToV1(*w)
	}()
	if p != nil {
		return []string{fmt.Sprintf("translateV2ToV1 panicked on a well-formed request: %v", p)}
	}
	if len(out.Timeseries) != len(w.Timeseries) {
		return []string{fmt.Sprintf("%d series translated, request has %d", len(out.Timeseries), len(w.Timeseries))}
	}
	for k, t := range w.Timeseries {
		o := out.Timeseries[k]
		if len(o.Labels) != len(t.LabelsRefs)/2 {
			bad("series %d: %d labels, want %d", k, len(o.Labels), len(t.LabelsRefs)/2)
			continue
		}
		for j := range o.Labels {
			if o.Labels[j].Name != w.Symbols[t.LabelsRefs[2*j]] || o.Labels[j].Value != w.Symbols[t.LabelsRefs[2*j+1]] {
				bad("series %d label %d: %s=%s, want %s=%s", k, j, o.Labels[j].Name, o.Labels[j].Value, w.Symbols[t.LabelsRefs[2*j]], w.Symbols[t.LabelsRefs[2*j+1]])
			}
		}
		if len(o.Samples) != len(t.Samples) {
			bad("series %d: %d samples, want %d", k, len(o.Samples), len(t.Samples))
		} else {
			for j := range o.Samples {
				if o.Samples[j].Timestamp != t.Samples[j].Timestamp || o.Samples[j].Value != t.Samples[j].Value {
					bad("series %d sample %d differs", k, j)
				}
			}
		}
		if len(o.Exemplars) != len(t.Exemplars) {
			bad("series %d: %d exemplars, want %d", k, len(o.Exemplars), len(t.Exemplars))
		} else {
			for j, e := range t.Exemplars {
				oe := o.Exemplars[j]
				if oe.Value != e.Value || oe.Timestamp != e.Timestamp || len(oe.Labels) != len(e.LabelsRefs)/2 {
					bad("series %d exemplar %d differs", k, j)
					continue
				}
				for l := range oe.Labels {
					if oe.Labels[l].Name != w.Symbols[e.LabelsRefs[2*l]] || oe.Labels[l].Value != w.Symbols[e.LabelsRefs[2*l+1]] {
						bad("series %d exemplar %d label %d differs", k, j, l)
					}
				}
			}
		}
		if len(o.Histograms) != len(t.Histograms) {
			bad("series %d: %d histograms, want %d", k, len(o.Histograms), len(t.Histograms))
			continue
		}
		for j, h := range t.Histograms {
			oh := o.Histograms[j]
			spans := func(a []prompb.BucketSpan, b []writev2.BucketSpan) bool {
				if len(a) != len(b) {
					return false
				}
				for i := range a {
					if a[i].Offset != b[i].Offset || a[i].Length != b[i].Length {
						return false
					}
				}
				return true
			}
			if oh.Sum != h.Sum || oh.Schema != h.Schema || oh.ZeroThreshold != h.ZeroThreshold || oh.Timestamp != h.Timestamp || int32(oh.ResetHint) != int32(h.ResetHint) {
				bad("series %d histogram %d: scalar fields differ", k, j)
			}
			if !spans(oh.NegativeSpans, h.NegativeSpans) {
				bad("series %d histogram %d: negative spans %v, want %v", k, j, oh.NegativeSpans, h.NegativeSpans)
			}
			if !spans(oh.PositiveSpans, h.PositiveSpans) {
				bad("series %d histogram %d: positive spans %v, want %v", k, j, oh.PositiveSpans, h.PositiveSpans)
			}
			if !reflect.DeepEqual(oh.NegativeDeltas, h.NegativeDeltas) || !reflect.DeepEqual(oh.PositiveDeltas, h.PositiveDeltas) ||
				!reflect.DeepEqual(oh.NegativeCounts, h.NegativeCounts) || !reflect.DeepEqual(oh.PositiveCounts, h.PositiveCounts) ||
				!reflect.DeepEqual(oh.CustomValues, h.CustomValues) {
				bad("series %d histogram %d: deltas/counts/custom values differ", k, j)
			}
			switch c := h.Count.(type) {
			case *writev2.Histogram_CountInt:
				if oc, ok := oh.Count.(*prompb.Histogram_CountInt); !ok || oc.CountInt != c.CountInt {
					bad("series %d histogram %d: count differs", k, j)
				}
			case *writev2.Histogram_CountFloat:
				if oc, ok := oh.Count.(*prompb.Histogram_CountFloat); !ok || oc.CountFloat != c.CountFloat {
					bad("series %d histogram %d: count differs", k, j)
				}
			}
			switch c := h.ZeroCount.(type) {
			case *writev2.Histogram_ZeroCountInt:
				if oc, ok := oh.ZeroCount.(*prompb.Histogram_ZeroCountInt); !ok || oc.ZeroCountInt != c.ZeroCountInt {
					bad("series %d histogram %d: zero count differs", k, j)
				}
			case *writev2.Histogram_ZeroCountFloat:
				if oc, ok := oh.ZeroCount.(*prompb.Histogram_ZeroCountFloat); !ok || oc.ZeroCountFloat != c.ZeroCountFloat {
					bad("series %d histogram %d: zero count differs", k, j)
				}
			}
		}
	}
	return msgs
}

func TestGovcReplay(t *testing.T) {
	r := govcLoad(t)
	var msgs []string
	// (1) out-of-range symbol references must be rejected with a client error
	outOfRange := []*writev2.Request{
		{Symbols: []string{""}, Timeseries: []writev2.TimeSeries{{LabelsRefs: []uint32{0, 1}, Samples: []writev2.Sample{{Value: 1, Timestamp: 1}}}}},
		{Timeseries: []writev2.TimeSeries{{LabelsRefs: []uint32{0, 0}}}},
		{Symbols: []string{"", "a", "b"}, Timeseries: []writev2.TimeSeries{{LabelsRefs: []uint32{1, 2}, Samples: []writev2.Sample{{Value: 1, Timestamp: 1}},
			Exemplars: []writev2.Exemplar{{LabelsRefs: []uint32{1, 7}, Value: 1, Timestamp: 1}}}}},
	}
	for i, req := range outOfRange {
		code, p := govcPostV2(req)
		if p != nil {
			msgs = append(msgs, fmt.Sprintf("request %d with an out-of-range symbol reference crashed the handler: %v", i, p))
		} else if code < 400 || code >= 500 {
			msgs = append(msgs, fmt.Sprintf("request %d with an out-of-range symbol reference answered with status %d, want 4xx", i, code))
		}
	}
	// (2) faithful translation of a well-formed request
	msgs = append(msgs, govcCheckTranslation(govcWellFormed())...)
	_ = r
	if len(msgs) > 0 {
		fmt.Println("REPLAY: reproduced:", strings.Join(msgs, "; "))
		t.Fail()
		return
	}
	fmt.Println("REPLAY: not reproduced")
}
