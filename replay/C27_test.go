package receive

// Replay harness for C27 (injected with `go test -overlay`): each tenant is served by the FIRST
// configured hashring whose tenant list selects it (exactly, or by glob pattern), a hashring without
// tenant list selecting everything, and repeated requests get the same hashring. Evaluated on the
// real NewMultiHashring / GetN: every hashring has one distinct endpoint, so the returned endpoint
// names the chosen hashring; the reference choice is computed with filepath.Match directly.

import (
	"fmt"
	"os"
	"path/filepath"
	"strings"
	"testing"

	"github.com/thanos-io/thanos/pkg/store/storepb/prompb"
)

type c27ring struct {
	tenants []string
	kind    tenantMatcher
}

func c27want(rings []c27ring, tenant string) int {
	for i, r := range rings {
		if len(r.tenants) == 0 {
			return i
		}
		for _, p := range r.tenants {
			if r.kind == TenantMatcherGlob {
				if ok, err := filepath.Match(p, tenant); err == nil && ok {
					return i
				}
			} else if p == tenant {
				return i
			}
		}
	}
	return -1
}

func TestGovcReplay(t *testing.T) {
	if _, err := os.ReadFile(os.Getenv("GOVC_REPLAY_FILE")); err != nil {
		t.Skip("no replay file")
	}
	var msgs []string
	configs := [][]c27ring{
		{{[]string{"team-*"}, TenantMatcherGlob}, {[]string{"team-a"}, TenantMatcherTypeExact}, {nil, ""}},
		{{[]string{"team-a"}, ""}, {[]string{"team-*"}, TenantMatcherGlob}, {nil, ""}},
		{{[]string{"team-[a-c]"}, TenantMatcherGlob}, {[]string{"team-*", "org?"}, TenantMatcherGlob}, {nil, ""}},
		{{[]string{"org-[0-9][0-9]", "x"}, TenantMatcherGlob}, {[]string{"org-11"}, TenantMatcherTypeExact}},
		{{nil, ""}, {[]string{"team-a"}, TenantMatcherTypeExact}},
		{{[]string{"a", "b"}, TenantMatcherTypeExact}, {[]string{"b", "c*"}, TenantMatcherGlob}, {[]string{"*"}, TenantMatcherGlob}},
		{{[]string{"team-*"}, TenantMatcherTypeExact}, {[]string{"team-*"}, TenantMatcherGlob}},
	}
	tenants := []string{"team-a", "team-b", "team-d", "team-", "org1", "org-11", "org-1", "x", "a", "b", "c", "cc", "team-*", "", "zzz"}
	for ci, rings := range configs {
		var cfg []HashringConfig
		for i, r := range rings {
			cfg = append(cfg, HashringConfig{Hashring: fmt.Sprintf("ring-%d", i), Tenants: r.tenants, TenantMatcherType: r.kind,
				Endpoints: []Endpoint{{Address: fmt.Sprintf("ring-%d-node:10901", i)}}})
		}
		h, err := NewMultiHashring(AlgorithmHashmod, 1, cfg, nil)
		if err != nil {
			t.Fatal(err)
		}
		for round := 0; round < 2; round++ {
			for _, tenant := range tenants {
				want := c27want(rings, tenant)
				e, err := h.GetN(tenant, &prompb.TimeSeries{}, 0)
				got := -1
				if err == nil {
					fmt.Sscanf(e.Address, "ring-%d-node", &got)
				}
				if got != want && len(msgs) < 4 {
					msgs = append(msgs, fmt.Sprintf("config %d, tenant %q (request %d): served by hashring %d, the first hashring selecting it is %d", ci, tenant, round+1, got, want))
				}
			}
		}
	}
	if len(msgs) > 0 {
		fmt.Println("REPLAY: reproduced:", strings.Join(msgs, "; "))
		t.Fail()
		return
	}
	fmt.Println("REPLAY: not reproduced")
}
