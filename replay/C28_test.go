package block

// Replay harness for C28 (injected with `go test -overlay`). Runs the real Upload / MarkForDeletion /
// Delete against an in-memory bucket wrapped so that the property statement is evaluated after EVERY
// mutating bucket operation (i.e. at every crash point): a block whose meta.json is present has its
// index and every chunk segment file; once deletion has started (meta.json removed from a marked
// block) the deletion mark stays until every other object of the block is gone.

import (
	"context"
	"fmt"
	"io"
	"os"
	"path"
	"path/filepath"
	"strings"
	"testing"

	"github.com/go-kit/log"
	"github.com/prometheus/client_golang/prometheus"
	"github.com/prometheus/prometheus/model/labels"
	"github.com/prometheus/prometheus/tsdb/chunkenc"
	"github.com/thanos-io/objstore"

	"github.com/thanos-io/thanos/pkg/block/metadata"
	"github.com/thanos-io/thanos/pkg/testutil/e2eutil"
)

type govcBkt struct {
	objstore.Bucket
	id       string
	segments []string
	marked   bool
	deleting bool
	msgs     *[]string
}

func (b *govcBkt) has(name string) bool {
	ok, _ := b.Bucket.Exists(context.Background(), name)
	return ok
}

func (b *govcBkt) check(op string) {
	if len(*b.msgs) >= 3 {
		return
	}
	if b.has(path.Join(b.id, MetaFilename)) {
		if !b.has(path.Join(b.id, IndexFilename)) {
			*b.msgs = append(*b.msgs, fmt.Sprintf("after %s: meta.json present without index", op))
		}
		for _, s := range b.segments {
			if !b.has(path.Join(b.id, ChunksDirname, s)) {
				*b.msgs = append(*b.msgs, fmt.Sprintf("after %s: meta.json present without chunk segment %s", op, s))
			}
		}
	}
	if b.marked && b.deleting && !b.has(path.Join(b.id, metadata.DeletionMarkFilename)) {
		rest := 0
		_ = b.Bucket.Iter(context.Background(), b.id+"/", func(n string) error { rest++; return nil }, objstore.WithRecursiveIter())
		if rest > 0 {
			*b.msgs = append(*b.msgs, fmt.Sprintf("after %s: deletion mark gone while %d other objects of the block remain", op, rest))
		}
	}
}

func (b *govcBkt) Upload(ctx context.Context, name string, r io.Reader, opts ...objstore.ObjectUploadOption) error {
	err := b.Bucket.Upload(ctx, name, r, opts...)
	b.check("upload of " + name)
	return err
}

func (b *govcBkt) Delete(ctx context.Context, name string) error {
	if strings.HasSuffix(name, MetaFilename) {
		b.deleting = true
	}
	err := b.Bucket.Delete(ctx, name)
	b.check("delete of " + name)
	return err
}

func TestGovcReplay(t *testing.T) {
	if _, err := os.ReadFile(os.Getenv("GOVC_REPLAY_FILE")); err != nil {
		t.Skip("no replay file")
	}
	ctx := context.Background()
	var msgs []string
	for nseg := 1; nseg <= 3; nseg++ {
		dir := t.TempDir()
		id, err := e2eutil.CreateBlock(ctx, dir, []labels.Labels{labels.FromStrings("a", "1"), labels.FromStrings("a", "2")}, 20, 0, 1000, labels.FromStrings("ext", "1"), 0, metadata.NoneFunc, []chunkenc.ValueType{chunkenc.ValFloat})
		if err != nil {
			t.Skip("cannot create block: " + err.Error())
		}
		bdir := filepath.Join(dir, id.String())
		// make the block have nseg chunk segment files
		segs := []string{"000001"}
		data, _ := os.ReadFile(filepath.Join(bdir, ChunksDirname, "000001"))
		for i := 2; i <= nseg; i++ {
			n := fmt.Sprintf("%06d", i)
			_ = os.WriteFile(filepath.Join(bdir, ChunksDirname, n), data, 0o644)
			segs = append(segs, n)
		}
		b := &govcBkt{Bucket: objstore.NewInMemBucket(), id: id.String(), segments: segs, msgs: &msgs}
		if err := Upload(ctx, log.NewNopLogger(), b, bdir, metadata.NoneFunc); err != nil {
			msgs = append(msgs, "upload failed: "+err.Error())
			continue
		}
		b.check("complete upload")
		if err := MarkForDeletion(ctx, log.NewNopLogger(), b, id, "test", prometheus.NewCounter(prometheus.CounterOpts{Name: "x"})); err != nil {
			continue
		}
		b.marked = true
		_ = Delete(ctx, log.NewNopLogger(), b, id)
	}
	if len(msgs) > 0 {
		fmt.Println("REPLAY: reproduced:", strings.Join(msgs, "; "))
		t.Fail()
		return
	}
	fmt.Println("REPLAY: not reproduced")
}
