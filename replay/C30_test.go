package compact

// Replay harness for C30 (injected with `go test -overlay`): the per-call part of the property
// statement evaluated on the real tsdbBasedPlanner.plan. Over generated groups (aligned
// non-overlapping blocks, blocks straddling zero, gaps, overlaps, already compacted blocks, blocks
// with tombstones) and sets of no-compact marks: a plan names blocks of the group only, never a
// block marked no-compact, at least two blocks (or one with tombstones); and when the blocks do not
// overlap and are aligned it never names the newest block and fits into one window of one
// configured range.

import (
	"fmt"
	"math/rand"
	"os"
	"strings"
	"testing"

	"github.com/go-kit/log"
	"github.com/oklog/ulid/v2"
	"github.com/prometheus/prometheus/tsdb"

	"github.com/thanos-io/thanos/pkg/block/metadata"
)

func c30floor(x, m int64) int64 {
	q := x / m
	if x%m != 0 && x < 0 {
		q--
	}
	return q * m
}

func c30check(ranges []int64, metas []*metadata.Meta, marked map[ulid.ULID]*metadata.NoCompactMark, msgs *[]string) {
	add := func(s string) {
		if len(*msgs) < 4 {
			var bl []string
			for _, m := range metas {
				x := fmt.Sprintf("[%d,%d)", m.MinTime, m.MaxTime)
				if _, ok := marked[m.ULID]; ok {
					x += "!"
				}
				bl = append(bl, x)
			}
			*msgs = append(*msgs, fmt.Sprintf("ranges %v, blocks %v (! = no-compact): %s", ranges, bl, s))
		}
	}
	p := &tsdbBasedPlanner{logger: log.NewNopLogger(), ranges: ranges}
	var plan []*metadata.Meta
	var err error
	func() {
		defer func() {
			if r := recover(); r != nil {
				add(fmt.Sprintf("planning crashed: %v", r))
			}
		}()
		plan, err = p.plan(marked, metas)
	}()
	if err != nil || len(plan) == 0 {
		return
	}
	overlap := false
	for i := range metas {
		for j := i + 1; j < len(metas); j++ {
			if metas[j].MinTime < metas[i].MaxTime {
				overlap = true
			}
		}
	}
	in := map[*metadata.Meta]bool{}
	for _, m := range metas {
		in[m] = true
	}
	var pl []string
	mint, maxt := plan[0].MinTime, plan[0].MaxTime
	for _, m := range plan {
		pl = append(pl, fmt.Sprintf("[%d,%d)", m.MinTime, m.MaxTime))
		if !in[m] {
			add("the plan names a block that is not in the group")
		}
		if _, ok := marked[m.ULID]; ok {
			add(fmt.Sprintf("the plan %v names a block marked no-compact", pl))
		}
		if m.MinTime < mint {
			mint = m.MinTime
		}
		if m.MaxTime > maxt {
			maxt = m.MaxTime
		}
	}
	if len(plan) == 1 && plan[0].Stats.NumTombstones == 0 {
		add(fmt.Sprintf("the plan names the single block %v, which has no tombstones", pl))
	}
	if overlap {
		return
	}
	newest := metas[len(metas)-1]
	for _, m := range plan {
		if m == newest {
			add(fmt.Sprintf("no blocks overlap, but the plan names the newest block %v", pl))
		}
	}
	if len(plan) >= 2 {
		fits := false
		for _, tr := range ranges[1:] {
			if c30floor(mint, tr)+tr >= maxt {
				fits = true
			}
		}
		if !fits {
			add(fmt.Sprintf("the plan %v does not fit into one aligned window of any configured range", pl))
		}
	}
}

func TestGovcReplay(t *testing.T) {
	if _, err := os.ReadFile(os.Getenv("GOVC_REPLAY_FILE")); err != nil {
		t.Skip("no replay file")
	}
	var msgs []string
	rnd := rand.New(rand.NewSource(9))
	ranges := []int64{20, 60, 180}
	n := uint64(0)
	mk := func(a, b int64, tomb uint64) *metadata.Meta {
		n++
		m := &metadata.Meta{BlockMeta: tsdb.BlockMeta{ULID: ulid.MustNew(n, nil), MinTime: a, MaxTime: b}}
		m.Stats.NumSeries = 100
		m.Stats.NumTombstones = tomb
		return m
	}
	for it := 0; it < 3000; it++ {
		var metas []*metadata.Meta
		t0 := int64(-200 + 20*rnd.Intn(12))
		for k := 0; k < 1+rnd.Intn(8); k++ {
			w := int64(20)
			switch rnd.Intn(6) {
			case 0:
				w = 60
				t0 = c30floor(t0+59, 60)
			case 1:
				t0 += 20 * int64(rnd.Intn(3)) // gap
			}
			a, b := t0, t0+w
			if rnd.Intn(12) == 0 {
				a -= 7 // overlap with the previous block / misaligned
			}
			tomb := uint64(0)
			if rnd.Intn(5) == 0 {
				tomb = 50
			}
			metas = append(metas, mk(a, b, tomb))
			t0 = b
		}
		marked := map[ulid.ULID]*metadata.NoCompactMark{}
		for _, m := range metas {
			if rnd.Intn(5) == 0 {
				marked[m.ULID] = &metadata.NoCompactMark{ID: m.ULID}
			}
		}
		// sorted by MinTime, as the planner's callers pass them
		for i := range metas {
			for j := i + 1; j < len(metas); j++ {
				if metas[j].MinTime < metas[i].MinTime {
					metas[i], metas[j] = metas[j], metas[i]
				}
			}
		}
		c30check(ranges, metas, marked, &msgs)
	}
	if len(msgs) > 0 {
		fmt.Println("REPLAY: reproduced:", strings.Join(msgs, "; "))
		t.Fail()
		return
	}
	fmt.Println("REPLAY: not reproduced")
}
