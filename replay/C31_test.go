package block

// Replay harness for C31 (injected with `go test -overlay`): contains(s1, s2) must hold exactly when
// every source of s2 occurs in s1 (a block may only be hidden when another block was built from all
// of its sources); evaluated over all small source lists drawn from four ULIDs.

import (
	"sort"
	"fmt"
	"os"
	"strings"
	"testing"

	"github.com/oklog/ulid/v2"

	"github.com/thanos-io/thanos/pkg/block/metadata"
)

func TestGovcReplay(t *testing.T) {
	if _, err := os.ReadFile(os.Getenv("GOVC_REPLAY_FILE")); err != nil {
		t.Skip("no replay file")
	}
	ids := []ulid.ULID{ulid.MustNew(1, nil), ulid.MustNew(2, nil), ulid.MustNew(3, nil), ulid.MustNew(4, nil)}
	var lists [][]ulid.ULID
	lists = append(lists, nil)
	for a := range ids {
		lists = append(lists, []ulid.ULID{ids[a]})
		for b := range ids {
			lists = append(lists, []ulid.ULID{ids[a], ids[b]})
			for c := range ids {
				lists = append(lists, []ulid.ULID{ids[a], ids[b], ids[c]})
			}
		}
	}
	var msgs []string
	for _, s1 := range lists {
		for _, s2 := range lists {
			want := true
			for _, x := range s2 {
				found := false
				for _, y := range s1 {
					if x == y {
						found = true
					}
				}
				if !found {
					want = false
				}
			}
			if got := contains(s1, s2); got != want && len(msgs) < 3 {
				msgs = append(msgs, fmt.Sprintf("contains(%v, %v) = %v, want %v", s1, s2, got, want))
			}
		}
	}
	// filterGroup on the real filter: a hidden block must be covered by ONE block that stays
	mk := func(id uint64, srcs ...uint64) *metadata.Meta {
		m := &metadata.Meta{}
		m.ULID = ulid.MustNew(id, nil)
		for _, x := range srcs {
			m.Compaction.Sources = append(m.Compaction.Sources, ulid.MustNew(x, nil))
		}
		return m
	}
	groups := [][]*metadata.Meta{
		{mk(10, 1, 2), mk(11, 3, 4), mk(12, 2, 3)},
		{mk(10, 1, 2), mk(11, 2, 3), mk(12, 1, 3), mk(13, 1)},
		{mk(10, 1, 2, 3), mk(11, 1, 2), mk(12, 3), mk(13, 4)},
		{mk(10, 1), mk(11, 2), mk(12, 1, 2), mk(13, 2, 3)},
	}
	for gi, g := range groups {
		ch := make(chan ulid.ULID, len(g))
		cp := append([]*metadata.Meta{}, g...)
		NewDeduplicateFilter(1).filterGroup(cp, ch)
		close(ch)
		hidden := map[ulid.ULID]bool{}
		for id := range ch {
			hidden[id] = true
		}
		for _, child := range g {
			if !hidden[child.ULID] {
				continue
			}
			covered := false
			for _, parent := range g {
				if parent != child && !hidden[parent.ULID] && contains(parent.Compaction.Sources, child.Compaction.Sources) {
					covered = true
				}
			}
			if !covered && len(msgs) < 4 {
				msgs = append(msgs, fmt.Sprintf("group %d: block %s is hidden as a duplicate although no single block that stays was built from all of its sources", gi, child.ULID))
			}
		}
	}
	// the outcome must not depend on the listing order: twin blocks (same sources, ULIDs with the same
	// millisecond timestamp and different entropy) listed in both orders
	{
		var e1, e2 [10]byte
		e1[9], e2[9] = 1, 2
		mk := func(ms uint64, entropy [10]byte, sources ...uint64) *metadata.Meta {
			var id ulid.ULID
			_ = id.SetTime(ms)
			_ = id.SetEntropy(entropy[:])
			m := &metadata.Meta{}
			m.ULID = id
			for _, s := range sources {
				m.Compaction.Sources = append(m.Compaction.Sources, ulid.MustNew(s, nil))
			}
			return m
		}
		run := func(list []*metadata.Meta) string {
			cp := append([]*metadata.Meta(nil), list...)
			ch := make(chan ulid.ULID, len(cp)+1)
			NewDeduplicateFilter(1).filterGroup(cp, ch)
			close(ch)
			var ids []string
			for id := range ch {
				ids = append(ids, id.String())
			}
			sort.Strings(ids)
			return strings.Join(ids, ",")
		}
		a, b, c := mk(1000, e1, 1, 2), mk(1000, e2, 1, 2), mk(2000, e1, 1)
		r1 := run([]*metadata.Meta{a, b, c})
		r2 := run([]*metadata.Meta{b, a, c})
		r3 := run([]*metadata.Meta{c, b, a})
		if (r1 != r2 || r1 != r3) && len(msgs) < 4 {
			msgs = append(msgs, fmt.Sprintf("twin blocks %s and %s (same sources, same millisecond): hidden blocks are [%s], [%s] or [%s] depending on the listing order", a.ULID, b.ULID, r1, r2, r3))
		}
	}
	if len(msgs) > 0 {
		fmt.Println("REPLAY: reproduced:", strings.Join(msgs, "; "))
		t.Fail()
		return
	}
	fmt.Println("REPLAY: not reproduced")
}
