package block

// Replay harness for C31 (injected with `go test -overlay`): contains(s1, s2) must hold exactly when
// every source of s2 occurs in s1 (a block may only be hidden when another block was built from all
// of its sources); evaluated over all small source lists drawn from four ULIDs.

import (
	"fmt"
	"os"
	"strings"
	"testing"

	"github.com/oklog/ulid/v2"
)

func TestGovcReplay(t *testing.T) {
	if _, err := os.ReadFile(os.Getenv("GOVC_REPLAY_FILE")); err != nil {
		t.Skip("no replay file")
	}
	ids := []ulid.ULID{ulid.MustNew(1, nil), ulid.MustNew(2, nil), ulid.MustNew(3, nil), ulid.MustNew(4, nil)}
	var lists [][]ulid.ULID
	lists = append(lists, nil)
	for a := range ids {
		lists = append(lists, []ulid.ULID{ids[a]})
		for b := range ids {
			lists = append(lists, []ulid.ULID{ids[a], ids[b]})
			for c := range ids {
				lists = append(lists, []ulid.ULID{ids[a], ids[b], ids[c]})
			}
		}
	}
	var msgs []string
	for _, s1 := range lists {
		for _, s2 := range lists {
			want := true
			for _, x := range s2 {
				found := false
				for _, y := range s1 {
					if x == y {
						found = true
					}
				}
				if !found {
					want = false
				}
			}
			if got := contains(s1, s2); got != want && len(msgs) < 3 {
				msgs = append(msgs, fmt.Sprintf("contains(%v, %v) = %v, want %v", s1, s2, got, want))
			}
		}
	}
	if len(msgs) > 0 {
		fmt.Println("REPLAY: reproduced:", strings.Join(msgs, "; "))
		t.Fail()
		return
	}
	fmt.Println("REPLAY: not reproduced")
}
