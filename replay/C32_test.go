package compact

// Replay harness for C32 (injected with `go test -overlay`). Evaluates the property statement on the
// real retention code with an in-memory bucket: a block whose newest possible sample (MaxTime-1 ms)
// is still younger than the retention must not be marked for deletion. Block ages are chosen around
// the retention boundary, with every sub-second offset class of MaxTime.

import (
	"context"
	"fmt"
	"math"
	"os"
	"strings"
	"testing"
	"time"

	"github.com/go-kit/log"
	"github.com/oklog/ulid/v2"
	"github.com/prometheus/client_golang/prometheus"
	"github.com/prometheus/prometheus/tsdb"
	"github.com/thanos-io/objstore"

	"github.com/thanos-io/thanos/pkg/block/metadata"
)

func TestGovcReplay(t *testing.T) {
	if _, err := os.ReadFile(os.Getenv("GOVC_REPLAY_FILE")); err != nil {
		t.Skip("no replay file")
	}
	const retention = time.Hour
	var msgs []string
	for _, youngerByMs := range []int64{40, 100, 200, 400, 700, 900} { // newest sample is younger than the retention by about this much
		now := time.Now().UnixMilli()
		maxTime := now - retention.Milliseconds() + youngerByMs + 1
		// the instant maxTime-1 is younger than the retention for the next youngerByMs milliseconds
		bkt := objstore.NewInMemBucket()
		id := ulid.MustNew(uint64(maxTime), nil)
		metas := map[ulid.ULID]*metadata.Meta{id: {BlockMeta: tsdb.BlockMeta{ULID: id, MinTime: maxTime - 7200000, MaxTime: maxTime}}}
		ctr := prometheus.NewCounter(prometheus.CounterOpts{Name: "x"})
		if err := ApplyRetentionPolicyByResolution(context.Background(), log.NewNopLogger(), bkt, metas, map[ResolutionLevel]time.Duration{ResolutionLevelRaw: retention}, ctr); err != nil {
			continue
		}
		after := time.Now().UnixMilli()
		if ok, _ := bkt.Exists(context.Background(), id.String()+"/deletion-mark.json"); ok && after-(maxTime-1) <= retention.Milliseconds() {
			msgs = append(msgs, fmt.Sprintf("block with MaxTime %d marked for deletion although its newest sample is only %d ms old (retention %d ms)", maxTime, after-(maxTime-1), retention.Milliseconds()))
		}
	}
	// open-ended blocks: MaxTime at or near the int64 limit is far in the future, never past retention
	for k, maxTime := range []int64{math.MaxInt64, math.MaxInt64 - 1000, math.MaxInt64 - retention.Milliseconds() + 1, math.MaxInt64 - retention.Milliseconds() - 5} {
		bkt := objstore.NewInMemBucket()
		id := ulid.MustNew(uint64(k+1), nil)
		metas := map[ulid.ULID]*metadata.Meta{id: {BlockMeta: tsdb.BlockMeta{ULID: id, MinTime: 0, MaxTime: maxTime}}}
		ctr := prometheus.NewCounter(prometheus.CounterOpts{Name: "x"})
		if err := ApplyRetentionPolicyByResolution(context.Background(), log.NewNopLogger(), bkt, metas, map[ResolutionLevel]time.Duration{ResolutionLevelRaw: retention}, ctr); err != nil {
			continue
		}
		if ok, _ := bkt.Exists(context.Background(), id.String()+"/deletion-mark.json"); ok {
			msgs = append(msgs, fmt.Sprintf("block with MaxTime %d (newest sample far in the future) marked for deletion under a retention of %d ms", maxTime, retention.Milliseconds()))
		}
	}
	if len(msgs) > 0 {
		fmt.Println("REPLAY: reproduced:", strings.Join(msgs[:1], "; "), fmt.Sprintf("(%d cases)", len(msgs)))
		t.Fail()
		return
	}
	fmt.Println("REPLAY: not reproduced")
}
