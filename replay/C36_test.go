package downsample

// Replay harness for C36 (injected with `go test -overlay`): currentWindow must return the last
// millisecond of the window containing t; the float aggregator must report count/sum/min/max of
// exactly the samples added since the last reset. Model values first, then a boundary grid.

import (
	"encoding/json"
	"fmt"
	"math"
	"os"
	"strconv"
	"strings"
	"testing"
)

func TestGovcReplay(t *testing.T) {
	data, err := os.ReadFile(os.Getenv("GOVC_REPLAY_FILE"))
	if err != nil {
		t.Skip("no replay file")
	}
	var r struct {
		Model map[string]string `json:"model"`
	}
	_ = json.Unmarshal(data, &r)
	var msgs []string
	chk := func(tt, res int64) {
		if res <= 0 || tt < 0 || tt > 1<<61 || res > 1<<60 {
			return
		}
		w := currentWindow(tt, res)
		if !(w >= tt && w-tt < res && (w+1)%res == 0) && len(msgs) < 3 {
			msgs = append(msgs, fmt.Sprintf("currentWindow(%d, %d) = %d is not the last millisecond of the window containing %d", tt, res, w, tt))
		}
	}
	if tt, err := strconv.ParseInt(strings.TrimSpace(r.Model["t"]), 10, 64); err == nil {
		if res, err := strconv.ParseInt(strings.TrimSpace(r.Model["r"]), 10, 64); err == nil {
			chk(tt, res)
		}
	}
	for _, res := range []int64{1, 2, 1000, 300000, 3600000} {
		for _, tt := range []int64{0, 1, res - 1, res, res + 1, 2*res - 1, 2 * res, 7*res + 3} {
			chk(tt, res)
		}
	}
	// aggregator: windows of samples
	seqs := [][]float64{{1}, {3, 1, 2}, {5, 5}, {-1, 0, -7.5, 2}, {0.25, 1e9, 3}}
	a := &floatAggregator{}
	for _, s := range seqs {
		a.reset()
		cnt, sum, mn, mx := 0, 0.0, math.MaxFloat64, -math.MaxFloat64
		for i, v := range s {
			a.add(sample{t: int64(i), v: v})
			cnt++
			sum += v
			mn, mx = math.Min(mn, v), math.Max(mx, v)
			if (a.count != cnt || a.sum != sum || a.min != mn || a.max != mx) && len(msgs) < 3 {
				msgs = append(msgs, fmt.Sprintf("after adding %v: count/sum/min/max = %d/%v/%v/%v, want %d/%v/%v/%v", s[:i+1], a.count, a.sum, a.min, a.max, cnt, sum, mn, mx))
			}
		}
	}
	if len(msgs) > 0 {
		fmt.Println("REPLAY: reproduced:", strings.Join(msgs, "; "))
		t.Fail()
		return
	}
	fmt.Println("REPLAY: not reproduced")
}
