package downsample

// Replay harness for C39 (injected with `go test -overlay`): an aggregate chunk encoded from any
// subset of the five sub-chunks must give every present aggregate back unchanged and report every
// absent one as ErrAggrNotExist. The solver's model (the bytes of a chunk that satisfies the layout
// precondition, and the aggregate type t) is replayed first against the real AggrChunk.Get through
// an independent reference parser of the layout; then all 32 presence patterns are round-tripped
// through the real EncodeAggrChunk / Get for sub-chunk sizes around the varint length boundaries.
// Finally the assumed contracts of binary.PutUvarint / binary.Uvarint are sampled against the real
// functions (reported as CONFORMANCE lines; never counted as proof).

import (
	"bytes"
	"encoding/binary"
	"encoding/json"
	"fmt"
	"math/rand"
	"os"
	"strconv"
	"strings"
	"testing"

	"github.com/prometheus/prometheus/tsdb/chunkenc"
)

type c39entry struct {
	present bool
	enc     byte
	data    []byte
}

// c39parse is the reference reading of the layout: five entries, each either one zero byte (absent)
// or uvarint(len) | encoding byte | len bytes. ok=false if b is not exactly such a layout.
func c39parse(b []byte) (es [5]c39entry, ok bool) {
	p := 0
	for j := 0; j < 5; j++ {
		var l uint64
		n := 0
		for sh := uint(0); ; sh += 7 {
			if p+n >= len(b) || n >= 8 {
				return es, false
			}
			x := b[p+n]
			n++
			l |= uint64(x&0x7f) << sh
			if x < 0x80 {
				break
			}
		}
		p += n
		if l == 0 {
			if n != 1 {
				return es, false
			}
			continue
		}
		if uint64(len(b)-p) < l+1 {
			return es, false
		}
		es[j] = c39entry{true, b[p], b[p+1 : p+1+int(l)]}
		p += 1 + int(l)
	}
	return es, p == len(b)
}

func c39check(b []byte, es [5]c39entry, only int, msgs *[]string) {
	for tt := 0; tt < 5; tt++ {
		if only >= 0 && tt != only {
			continue
		}
		r, err := AggrChunk(b).Get(AggrType(tt))
		switch {
		case !es[tt].present:
			if err != ErrAggrNotExist && len(*msgs) < 4 {
				*msgs = append(*msgs, fmt.Sprintf("chunk %v: aggregate %d is absent but Get returned error %q instead of ErrAggrNotExist", c39short(b), tt, fmt.Sprint(err)))
			}
		case es[tt].enc == byte(chunkenc.EncXOR):
			if err != nil || r == nil || byte(r.Encoding()) != es[tt].enc || !bytes.Equal(r.Bytes(), es[tt].data) {
				if len(*msgs) < 4 {
					*msgs = append(*msgs, fmt.Sprintf("chunk %v: present aggregate %d is not returned unchanged (err=%v)", c39short(b), tt, err))
				}
			}
		}
	}
}

func c39short(b []byte) string {
	if len(b) > 24 {
		return fmt.Sprintf("%v...(%d bytes)", b[:24], len(b))
	}
	return fmt.Sprint(b)
}

func TestGovcReplay(t *testing.T) {
	data, err := os.ReadFile(os.Getenv("GOVC_REPLAY_FILE"))
	if err != nil {
		t.Skip("no replay file")
	}
	var r struct {
		Model map[string]string `json:"model"`
	}
	_ = json.Unmarshal(data, &r)
	var msgs []string
	geti := func(k string) (int64, bool) {
		v, ok := r.Model[k]
		if !ok {
			return 0, false
		}
		n, err := strconv.ParseInt(strings.TrimSpace(v), 10, 64)
		return n, err == nil
	}
	// 1. the model
	if n, ok := geti("len(c)"); ok && n >= 0 && n <= 1<<16 {
		b := make([]byte, n)
		for i := range b {
			if v, ok := geti(fmt.Sprintf("c[%d]", i)); ok {
				b[i] = byte(v)
			}
		}
		tt, _ := geti("t")
		if es, ok := c39parse(b); ok && tt >= 0 && tt <= 4 {
			c39check(b, es, int(tt), &msgs)
		}
	}
	// 2. all presence patterns, sizes around the varint boundaries, through the real encoder
	rnd := rand.New(rand.NewSource(1))
	sizes := []int{2, 3, 4, 126, 127, 128, 129, 300, 16383, 16384, 16385} // at least the 2-byte sample-count header of a chunk
	for mask := 0; mask < 32; mask++ {
		for rep := 0; rep < 3; rep++ {
			var chks [5]chunkenc.Chunk
			var es [5]c39entry
			for j := 0; j < 5; j++ {
				if mask&(1<<j) == 0 {
					continue
				}
				d := make([]byte, sizes[rnd.Intn(len(sizes))])
				rnd.Read(d)
				if rnd.Intn(6) == 0 {
					d = append([]byte(nil), chunkenc.NewXORChunk().Bytes()...) // a present chunk nobody appended to
				}
				ch, err := chunkenc.FromData(chunkenc.EncXOR, d)
				if err != nil {
					t.Fatal(err)
				}
				chks[j] = ch
				es[j] = c39entry{true, byte(chunkenc.EncXOR), d}
			}
			enc := EncodeAggrChunk(chks)
			if got, ok := c39parse(*enc); !ok {
				if len(msgs) < 4 {
					msgs = append(msgs, fmt.Sprintf("presence %05b: EncodeAggrChunk output is not a well-formed layout", mask))
				}
			} else {
				for j := range got {
					if got[j].present != es[j].present || !bytes.Equal(got[j].data, es[j].data) {
						if len(msgs) < 4 {
							msgs = append(msgs, fmt.Sprintf("presence %05b: encoded entry %d differs from the sub-chunk", mask, j))
						}
					}
				}
			}
			c39check(*enc, es, -1, &msgs)
		}
	}
	// 3. conformance sample of the assumed varint contracts
	bad := 0
	for i := 0; i < 20000; i++ {
		x := rnd.Uint64() >> uint(8+rnd.Intn(56))
		var buf [10]byte
		n := binary.PutUvarint(buf[:], x)
		want := 1
		for y := x; y >= 128; y >>= 7 {
			want++
		}
		v, m := binary.Uvarint(buf[:n])
		okBytes := buf[n-1] < 128
		for k := 0; k < n-1; k++ {
			okBytes = okBytes && buf[k] >= 128
		}
		if n != want || !okBytes || v != x || m != n {
			bad++
		}
		if n > 1 {
			if _, m := binary.Uvarint(buf[:n-1]); m != 0 {
				bad++
			}
		}
	}
	fmt.Printf("CONFORMANCE: binary.PutUvarint/Uvarint against the assumed contracts: 20000 samples, %d mismatches\n", bad)
	if len(msgs) > 0 {
		fmt.Println("REPLAY: reproduced:", strings.Join(msgs, "; "))
		t.Fail()
		return
	}
	fmt.Println("REPLAY: not reproduced")
}
