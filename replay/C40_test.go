package dedup

// Replay harness for C40 (injected with `go test -overlay`): when overlapping downsampled
// (aggregate) chunks of one series are merged with penalty deduplication, every aggregate of the
// result (sum, min, max, counter) must have a sample at each timestamp where the merged count
// aggregate has one. Evaluated on the real NewChunkSeriesMerger over pairs of overlapping aggregate
// chunk sequences of 1..400 samples with offsets and different chunk cuts; the model of a failed
// obligation is a state of the per-aggregate sample iterators in the middle of a merge, so the
// harness runs this grid (which contains merged groups both below and above the 120-sample chunk
// cut of the re-encoder).

import (
	"fmt"
	"os"
	"strings"
	"testing"

	"github.com/prometheus/prometheus/model/labels"
	"github.com/prometheus/prometheus/storage"
	"github.com/prometheus/prometheus/tsdb/chunkenc"
	"github.com/prometheus/prometheus/tsdb/chunks"

	"github.com/thanos-io/thanos/pkg/compact/downsample"
)

func c40chunk(start, step int64, n int, off float64) chunks.Meta {
	var chks [5]chunkenc.Chunk
	var lastT int64
	for at := downsample.AggrCount; at <= downsample.AggrCounter; at++ {
		c := chunkenc.NewXORChunk()
		app, _ := c.Appender()
		var lastV float64
		for i := 0; i < n; i++ {
			lastT = start + int64(i)*step
			lastV = off + float64(i+1)*float64(at+1)
			app.Append(lastT, lastV)
		}
		if at == downsample.AggrCounter {
			app.Append(lastT, lastV)
		}
		chks[at] = c
	}
	return chunks.Meta{MinTime: start, MaxTime: lastT, Chunk: downsample.EncodeAggrChunk(chks)}
}

func c40series(start, step int64, total, perChunk int, off float64) storage.ChunkSeries {
	var metas []chunks.Meta
	for done := 0; done < total; done += perChunk {
		n := perChunk
		if total-done < n {
			n = total - done
		}
		metas = append(metas, c40chunk(start+int64(done)*step, step, n, off+float64(done)))
	}
	return &storage.ChunkSeriesEntry{Lset: labels.FromStrings("a", "b"), ChunkIteratorFn: func(chunks.Iterator) chunks.Iterator {
		return storage.NewListChunkSeriesIterator(metas...)
	}}
}

func c40ts(c chunkenc.Chunk) map[int64]bool {
	ts := map[int64]bool{}
	it := c.Iterator(nil)
	for it.Next() != chunkenc.ValNone {
		ts[it.AtT()] = true
	}
	return ts
}

func c40run(desc string, a, b storage.ChunkSeries, msgs *[]string) {
	merged := NewChunkSeriesMerger()(a, b)
	it := merged.Iterator(nil)
	for it.Next() {
		m := it.At()
		ac, ok := m.Chunk.(*downsample.AggrChunk)
		if !ok {
			continue
		}
		cnt, err := ac.Get(downsample.AggrCount)
		if err != nil {
			continue
		}
		want := c40ts(cnt)
		for at := downsample.AggrSum; at <= downsample.AggrCounter; at++ {
			c, err := ac.Get(at)
			have := map[int64]bool{}
			if err == nil {
				have = c40ts(c)
			}
			missing := 0
			var first int64
			for t := range want {
				if !have[t] {
					if missing == 0 || t < first {
						first = t
					}
					missing++
				}
			}
			if missing > 0 && len(*msgs) < 4 {
				*msgs = append(*msgs, fmt.Sprintf("%s: merged chunk [%d,%d]: aggregate %s has no sample at %d of the %d timestamps of the count aggregate (first: %d)", desc, m.MinTime, m.MaxTime, at, missing, len(want), first))
			}
		}
	}
	if err := it.Err(); err != nil && len(*msgs) < 4 {
		*msgs = append(*msgs, fmt.Sprintf("%s: merge failed: %v", desc, err))
	}
}

func TestGovcReplay(t *testing.T) {
	if _, err := os.ReadFile(os.Getenv("GOVC_REPLAY_FILE")); err != nil {
		t.Skip("no replay file")
	}
	var msgs []string
	const step = 300000
	for _, total := range []int{1, 2, 30, 119, 120, 121, 200, 400} {
		for _, per := range []int{30, 120} {
			for _, offset := range []int64{0, 1, step / 2} {
				for _, total2 := range []int{total, total/2 + 1} {
					desc := fmt.Sprintf("%d and %d samples (chunks of %d), second series offset by %d ms", total, total2, per, offset)
					c40run(desc, c40series(step, step, total, per, 0), c40series(step+offset, step, total2, per, 0.5), &msgs)
					c40run(desc+", first window at t=0", c40series(0, step, total, per, 0), c40series(offset, step, total2, per, 0.5), &msgs)
				}
			}
		}
	}
	// a window whose only / last sample is (t=0, v=0) in every aggregate
	zero := func(n int) storage.ChunkSeries {
		var chks [5]chunkenc.Chunk
		for at := downsample.AggrCount; at <= downsample.AggrCounter; at++ {
			c := chunkenc.NewXORChunk()
			app, _ := c.Appender()
			for i := 0; i < n; i++ {
				app.Append(int64(i-n+1)*step, 0)
			}
			if at == downsample.AggrCounter {
				app.Append(0, 0)
			}
			chks[at] = c
		}
		m := chunks.Meta{MinTime: int64(1-n) * step, MaxTime: 0, Chunk: downsample.EncodeAggrChunk(chks)}
		return &storage.ChunkSeriesEntry{Lset: labels.FromStrings("a", "b"), ChunkIteratorFn: func(chunks.Iterator) chunks.Iterator {
			return storage.NewListChunkSeriesIterator(m)
		}}
	}
	c40run("two overlapping chunks whose samples (ending at t=0) all have value 0", zero(3), zero(2), &msgs)
	c40run("two overlapping single-sample chunks at t=0 with value 0", zero(1), zero(1), &msgs)
	if len(msgs) > 0 {
		fmt.Println("REPLAY: reproduced:", strings.Join(msgs, "; "))
		t.Fail()
		return
	}
	fmt.Println("REPLAY: not reproduced")
}
