package queryfrontend

// Replay harness for C41 (injected with `go test -overlay`, nothing is written to /repo).
// Reads the solver's counterexample and evaluates the property statement on the real code:
// the sub-queries produced by splitQuery must evaluate exactly the steps of the original query.

import (
	"encoding/json"
	"fmt"
	"os"
	"strconv"
	"strings"
	"testing"
	"time"
)

type govcReplay struct {
	Property   string            `json:"property"`
	Obligation string            `json:"obligation"`
	Function   string            `json:"function"`
	Model      map[string]string `json:"model"`
}

func govcLoad(t *testing.T) *govcReplay {
	data, err := os.ReadFile(os.Getenv("GOVC_REPLAY_FILE"))
	if err != nil {
		t.Skip("no replay file")
	}
	var r govcReplay
	if err := json.Unmarshal(data, &r); err != nil {
		t.Fatal(err)
	}
	return &r
}

func (r *govcReplay) i64(name string) int64 {
	v, err := strconv.ParseInt(strings.TrimSpace(r.Model[name]), 10, 64)
	if err != nil {
		return 0
	}
	return v
}

// stepsOf enumerates the evaluation timestamps of a range query.
func govcSteps(start, end, step int64, max int) []int64 {
	var out []int64
	for ts := start; ts <= end && len(out) < max; ts += step {
		out = append(out, ts)
	}
	return out
}

func govcCheckSplit(start, end, step int64, interval time.Duration) string {
	req := &ThanosQueryRangeRequest{Start: start, End: end, Step: step, Query: "up"}
	reqs, err := splitQuery(req, interval)
	if err != nil {
		return fmt.Sprintf("splitQuery error: %v", err)
	}
	const max = 200000
	want := govcSteps(start, end, step, max)
	var got []int64
	for _, r := range reqs {
		got = append(got, govcSteps(r.GetStart(), r.GetEnd(), r.GetStep(), max)...)
		if len(got) > max {
			break
		}
	}
	if len(want) >= max {
		return "" // too many steps to enumerate; not decided by replay
	}
	if len(got) != len(want) {
		return fmt.Sprintf("start=%d end=%d step=%d interval=%v: %d steps evaluated by sub-queries, original has %d", start, end, step, interval, len(got), len(want))
	}
	for i := range want {
		if got[i] != want[i] {
			return fmt.Sprintf("start=%d end=%d step=%d interval=%v: step %d is %d in sub-queries, %d in the original", start, end, step, interval, i, got[i], want[i])
		}
	}
	return ""
}

func TestGovcReplay(t *testing.T) {
	r := govcLoad(t)
	var msgs []string
	switch {
	case strings.HasSuffix(r.Function, "nextIntervalBoundary"):
		tt, step, iv := r.i64("t"), r.i64("step"), r.i64("interval")
		if step <= 0 || iv < 1000000 {
			break
		}
		I := iv / 1000000
		res := nextIntervalBoundary(tt, step, time.Duration(iv))
		next := (tt/I + 1) * I
		if !(tt <= res && res < next && res+step >= next && (res-tt)%step == 0) {
			msgs = append(msgs, fmt.Sprintf("nextIntervalBoundary(%d,%d,%d)=%d is not the last step before the next interval boundary %d", tt, step, iv, res, next))
		}
		// property level: a query starting at t over the next three intervals
		for _, end := range []int64{next, next + I, tt + 3*I, tt + step} {
			if m := govcCheckSplit(tt, end, step, time.Duration(iv)); m != "" {
				msgs = append(msgs, m)
			}
		}
	default:
		start, end, step, iv := r.i64("let S"), r.i64("let E"), r.i64("let st"), r.i64("interval")
		if step > 0 && iv >= 1000000 && start <= end {
			if m := govcCheckSplit(start, end, step, time.Duration(iv)); m != "" {
				msgs = append(msgs, m)
			}
		}
	}
	// boundary battery (used as well when the solver gave no model): starts on and off the step grid,
	// ranges of exactly one step, ranges crossing one or several interval boundaries
	if len(msgs) == 0 {
		for _, iv := range []int64{1000 * 1000000, 3600 * 1000 * 1000000} {
			I := iv / 1000000
			for _, step := range []int64{1, 7, 15000, I, I + 1, 3 * I} {
				for _, start := range []int64{0, 7000, I - 1, I, I + 7} {
					for _, span := range []int64{0, 1, step - 1, step, step + 1, I, 2*I + step, 3 * I} {
						if span < 0 || len(msgs) >= 3 {
							continue
						}
						if m := govcCheckSplit(start, start+span, step, time.Duration(iv)); m != "" {
							msgs = append(msgs, m)
						}
					}
				}
			}
		}
	}
	if len(msgs) > 0 {
		fmt.Println("REPLAY: reproduced:", strings.Join(msgs, "; "))
		t.Fail()
		return
	}
	fmt.Println("REPLAY: not reproduced")
}
