package querysharding

// Replay harness for C44 (injected with `go test -overlay`): the scope of labels a query may be
// sharded by is narrowed node by node; once a scope is established it must stay established (an
// empty scope means "not shardable" — it must never turn back into "nothing analysed yet", which
// would let a later grouping node re-enable sharding for a query that cannot be sharded), and the
// list operations must be the set operations they stand for. Evaluated on the real scopeToLabels /
// intersect / union / without over generated sequences of (labels, by/without) nodes against a
// reference set algebra.

import (
	"fmt"
	"math/rand"
	"os"
	"sort"
	"strings"
	"testing"
)

func c44set(s []string) string {
	m := map[string]bool{}
	for _, x := range s {
		m[x] = true
	}
	var o []string
	for x := range m {
		o = append(o, x)
	}
	sort.Strings(o)
	return strings.Join(o, ",")
}

func TestGovcReplay(t *testing.T) {
	if _, err := os.ReadFile(os.Getenv("GOVC_REPLAY_FILE")); err != nil {
		t.Skip("no replay file")
	}
	var msgs []string
	add := func(s string) {
		if len(msgs) < 4 {
			msgs = append(msgs, s)
		}
	}
	univ := []string{"a", "b", "c", "d", "e"}
	rnd := rand.New(rand.NewSource(9))
	pick := func() []string {
		out := []string{}
		for _, x := range univ {
			if rnd.Intn(3) == 0 {
				out = append(out, x)
			}
		}
		return out
	}
	for i := 0; i < 3000; i++ {
		a, b := pick(), pick()
		in := map[string]bool{}
		for _, x := range a {
			for _, y := range b {
				if x == y {
					in[x] = true
				}
			}
		}
		var want []string
		for x := range in {
			want = append(want, x)
		}
		if got := intersect(a, b); got == nil || c44set(got) != c44set(want) {
			add(fmt.Sprintf("intersect(%v, %v) = %v (nil: %v), want the set %v as a non-nil list", a, b, got, got == nil, want))
		}
		// sequences of nodes
		var q QueryAnalysis
		established := false
		var trace []string
		for k := 0; k < 1+rnd.Intn(4); k++ {
			ls, by := pick(), rnd.Intn(2) == 0
			trace = append(trace, fmt.Sprintf("%v/by=%v", ls, by))
			q = q.scopeToLabels(ls, by)
			if established && q.shardingLabels == nil {
				add(fmt.Sprintf("nodes %v: an established (possibly empty) scope turned back into 'nothing analysed' — the next grouping node re-enables sharding", trace))
				break
			}
			established = true
		}
	}
	// the real analyser on binary vector operations without on(): series of the two sides that
	// agree on all labels but the metric name must meet in one shard, so a `without` scope has to
	// name __name__ (and a `by` scope must not) — for arithmetic, comparison and set operators
	for _, op := range []string{"+", "-", "*", "/", "==", "!=", ">", "<", ">=", "<=", "> bool", "and", "or", "unless"} {
		for _, q := range []string{"foo %s bar", "foo %s ignoring(x) bar", "sum without (pod) (foo) %s sum without (pod) (bar)"} {
			query := fmt.Sprintf(q, op)
			an, err := (&QueryAnalyzer{}).Analyze(query)
			if err != nil || !an.IsShardable() {
				continue
			}
			has := false
			for _, l := range an.ShardingLabels() {
				if l == "__name__" {
					has = true
				}
			}
			if !an.ShardBy() && !has {
				add(fmt.Sprintf("query %q is sharded without %v: the metric name takes part in the shard hash, the two sides of the operation are not co-located", query, an.ShardingLabels()))
			}
			if an.ShardBy() && has {
				add(fmt.Sprintf("query %q is sharded by %v, which includes the metric name", query, an.ShardingLabels()))
			}
		}
	}
	if len(msgs) > 0 {
		fmt.Println("REPLAY: reproduced:", strings.Join(msgs, "; "))
		t.Fail()
		return
	}
	fmt.Println("REPLAY: not reproduced")
}
