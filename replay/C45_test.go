package rules

// Replay harness for C45 (injected with `go test -overlay`). Evaluates the property statement on
// the real code: a rule is selected iff no matcher sets are given or at least ONE set matches,
// where a set matches iff ALL its matchers match the rule's non-templated label values (absent
// label = ""). The oracle below is written independently of rules.go.

import (
	"fmt"
	"strings"
	"testing"

	"github.com/prometheus/prometheus/model/labels"

	"github.com/thanos-io/thanos/pkg/rules/rulespb"
	"github.com/thanos-io/thanos/pkg/store/labelpb"
)

func govcOracle(sets [][]*labels.Matcher, nonTemplated map[string]string) bool {
	if len(sets) == 0 {
		return true
	}
	for _, set := range sets {
		all := true
		for _, m := range set {
			if !m.Matches(nonTemplated[m.Name]) {
				all = false
			}
		}
		if all {
			return true
		}
	}
	return false
}

func TestGovcReplay(t *testing.T) {
	mk := func(ty labels.MatchType, n, v string) *labels.Matcher { return labels.MustNewMatcher(ty, n, v) }
	ms := []*labels.Matcher{
		mk(labels.MatchEqual, "a", "1"), mk(labels.MatchEqual, "a", "2"), mk(labels.MatchNotEqual, "a", "1"),
		mk(labels.MatchRegexp, "a", "1|2"), mk(labels.MatchEqual, "b", ""), mk(labels.MatchEqual, "b", "x"),
		mk(labels.MatchNotRegexp, "c", "y.*"), mk(labels.MatchEqual, "t", "{{ $labels.x }}"), mk(labels.MatchEqual, "t", ""),
	}
	type lcase struct {
		l  labels.Labels
		nt map[string]string
	}
	lcases := []lcase{
		{labels.EmptyLabels(), map[string]string{}},
		{labels.FromStrings("a", "1"), map[string]string{"a": "1"}},
		{labels.FromStrings("a", "2", "b", "x"), map[string]string{"a": "2", "b": "x"}},
		{labels.FromStrings("a", "1", "t", "{{ $labels.x }}"), map[string]string{"a": "1"}},
		{labels.FromStrings("c", "yes", "b", "x"), map[string]string{"c": "yes", "b": "x"}},
	}
	var sets [][]*labels.Matcher
	sets = append(sets, nil)
	for i := range ms {
		sets = append(sets, []*labels.Matcher{ms[i]})
		for j := i + 1; j < len(ms); j++ {
			sets = append(sets, []*labels.Matcher{ms[i], ms[j]})
		}
	}
	var msgs []string
	check := func(ss [][]*labels.Matcher, lc lcase) {
		if len(msgs) >= 5 {
			return
		}
		got, want := matches(ss, lc.l), govcOracle(ss, lc.nt)
		if got != want {
			msgs = append(msgs, fmt.Sprintf("matches(%v, %s) = %v, Prometheus semantics (any set, all matchers) gives %v", ss, lc.l, got, want))
		}
	}
	for _, lc := range lcases {
		check(nil, lc)
		for i := range sets {
			if sets[i] == nil {
				continue
			}
			check([][]*labels.Matcher{sets[i]}, lc)
			for j := range sets {
				if sets[j] == nil {
					continue
				}
				check([][]*labels.Matcher{sets[i], sets[j]}, lc)
			}
		}
	}
	// removeReplicaLabels on a real rule: none of the replica labels may survive, whichever order the
	// set is walked in (repeated, because Go randomises map iteration)
	for rep := 0; rep < 20; rep++ {
		r := &rulespb.Rule{Result: &rulespb.Rule_Alert{Alert: &rulespb.Alert{Name: "x", Labels: labelpb.ZLabelSet{Labels: labelpb.ZLabelsFromPromLabels(labels.FromStrings("a", "1", "replica", "r0", "rule_replica", "q1", "zone", "z"))}}}}
		removeReplicaLabels(r, map[string]struct{}{"replica": {}, "rule_replica": {}, "zone": {}})
		got := r.GetLabels()
		for _, n := range []string{"replica", "rule_replica", "zone"} {
			if got.Has(n) && len(msgs) < 4 {
				msgs = append(msgs, fmt.Sprintf("rule {a, replica, rule_replica, zone} with replica labels {replica, rule_replica, zone}: label %q is still there after removeReplicaLabels (labels now %v)", n, got))
			}
		}
		if !got.Has("a") && len(msgs) < 4 {
			msgs = append(msgs, "removeReplicaLabels removed the non-replica label a")
		}
	}
	// the filter over whole groups: a group keeps exactly the rules the oracle selects, in order, and
	// a group is dropped only when none of its rules is selected
	mkRule := func(name string, l labels.Labels) *rulespb.Rule {
		return &rulespb.Rule{Result: &rulespb.Rule_Alert{Alert: &rulespb.Alert{Name: name, Labels: labelpb.ZLabelSet{Labels: labelpb.ZLabelsFromPromLabels(l)}}}}
	}
	for i := range sets {
		if sets[i] == nil {
			continue
		}
		ss := [][]*labels.Matcher{sets[i]}
		var groups []*rulespb.RuleGroup
		var want [][]string
		for gi := 0; gi < 3; gi++ {
			g := &rulespb.RuleGroup{Name: fmt.Sprintf("g%d", gi)}
			var keep []string
			for ri, lc := range lcases {
				if (ri+gi)%3 == 2 {
					continue
				}
				name := fmt.Sprintf("g%d-r%d", gi, ri)
				g.Rules = append(g.Rules, mkRule(name, lc.l))
				if govcOracle(ss, lc.nt) {
					keep = append(keep, name)
				}
			}
			groups = append(groups, g)
			if len(keep) > 0 {
				want = append(want, keep)
			}
		}
		var got [][]string
		for _, g := range filterRulesByMatchers(groups, ss) {
			var names []string
			for _, r := range g.Rules {
				names = append(names, r.GetAlert().Name)
			}
			got = append(got, names)
		}
		if fmt.Sprint(got) != fmt.Sprint(want) && len(msgs) < 4 {
			msgs = append(msgs, fmt.Sprintf("filterRulesByMatchers with matcher set %v keeps %v, Prometheus semantics selects %v (rules without labels count as having every label empty)", sets[i], got, want))
		}
	}
	if len(msgs) > 0 {
		fmt.Println("REPLAY: reproduced:", strings.Join(msgs, "; "))
		t.Fail()
		return
	}
	fmt.Println("REPLAY: not reproduced")
}
