package alert

// Replay harness for C46 (injected with `go test -overlay`): the alert queue is a bounded FIFO:
// alerts leave in push order, the queue never holds more than its capacity (oldest dropped first),
// every batch is at most the batch size, and after every Push/Pop that leaves alerts queued a
// wake-up is pending (a Pop with a termination channel that is never closed must return a batch
// without a further Push). The model's capacity / batch size / lengths are tried first, then a grid
// around the capacity and the batch size, with and without relabel rules that drop alerts.

import (
	"encoding/json"
	"fmt"
	"os"
	"strconv"
	"strings"
	"testing"
	"time"

	"github.com/prometheus/common/model"
	"github.com/prometheus/prometheus/model/labels"
	"github.com/prometheus/prometheus/model/relabel"
	"github.com/prometheus/prometheus/notifier"
)

func c46run(capacity, batch int, pushes []int, drop bool, msgs *[]string) {
	if capacity < 1 || batch < 1 || capacity > 1<<12 || batch > 1<<12 {
		return
	}
	var cfgs []*relabel.Config
	if drop {
		cfgs = []*relabel.Config{{SourceLabels: model.LabelNames{"drop"}, Regex: relabel.MustNewRegexp("yes"), Action: relabel.Drop, NameValidationScheme: model.UTF8Validation}}
	}
	q := NewQueue(nil, nil, capacity, batch, labels.EmptyLabels(), nil, cfgs)
	var want []string // reference: the newest kept alerts, at most capacity
	n := 0
	pop := func() bool {
		done := make(chan []*notifier.Alert, 1)
		go func() { done <- q.Pop(nil) }()
		select {
		case got := <-done:
			if len(got) > batch && len(*msgs) < 4 {
				*msgs = append(*msgs, fmt.Sprintf("capacity %d batch %d: Pop returned %d alerts", capacity, batch, len(got)))
			}
			for i, a := range got {
				id := a.Labels.Get("id")
				if (i >= len(want) || want[i] != id) && len(*msgs) < 4 {
					*msgs = append(*msgs, fmt.Sprintf("capacity %d batch %d pushes %v: Pop returned alert %s where the FIFO order has %v", capacity, batch, pushes, id, firstOf(want, i)))
				}
			}
			if len(got) <= len(want) {
				want = want[len(got):]
			} else {
				want = nil
			}
			return true
		case <-time.After(300 * time.Millisecond):
			if len(*msgs) < 4 {
				*msgs = append(*msgs, fmt.Sprintf("capacity %d batch %d pushes %v: %d alerts are queued but Pop was not woken", capacity, batch, pushes, len(want)))
			}
			return false
		}
	}
	for _, p := range pushes {
		var as []*notifier.Alert
		for i := 0; i < p; i++ {
			n++
			id := strconv.Itoa(n)
			dropIt := drop && n%3 == 0
			b := labels.NewBuilder(labels.EmptyLabels()).Set("id", id)
			if dropIt {
				b.Set("drop", "yes")
			} else {
				want = append(want, id)
			}
			as = append(as, &notifier.Alert{Labels: b.Labels()})
		}
		q.Push(as)
		if len(want) > capacity {
			want = want[len(want)-capacity:]
		}
		if q.Len() > capacity && len(*msgs) < 4 {
			*msgs = append(*msgs, fmt.Sprintf("capacity %d: queue holds %d alerts", capacity, q.Len()))
		}
		if q.Len() != len(want) && len(*msgs) < 4 {
			*msgs = append(*msgs, fmt.Sprintf("capacity %d batch %d pushes %v: queue holds %d alerts, the newest kept alerts are %d", capacity, batch, pushes, q.Len(), len(want)))
		}
		if len(want) > 0 && !pop() { // one batch after every push: leaves a remainder behind when the push was larger
			return
		}
	}
	for len(want) > 0 {
		if !pop() {
			return
		}
	}
}

func firstOf(s []string, i int) string {
	if i < len(s) {
		return s[i]
	}
	return "<nothing>"
}

func TestGovcReplay(t *testing.T) {
	data, err := os.ReadFile(os.Getenv("GOVC_REPLAY_FILE"))
	if err != nil {
		t.Skip("no replay file")
	}
	var r struct {
		Model map[string]string `json:"model"`
	}
	_ = json.Unmarshal(data, &r)
	geti := func(k string) int {
		n, _ := strconv.Atoi(strings.TrimSpace(r.Model[k]))
		return n
	}
	var msgs []string
	mc, mb, ml := geti("q.capacity"), geti("q.maxBatchSize"), geti("len(alerts)")
	for _, drop := range []bool{false, true} {
		c46run(mc, mb, []int{ml, ml}, drop, &msgs)
		for _, capacity := range []int{1, 2, 4, 7} {
			for _, batch := range []int{1, 2, 3, 5} {
				for _, pushes := range [][]int{{1}, {capacity}, {capacity + 1}, {2*capacity + 1}, {batch + 1}, {capacity - 1, 2}, {1, capacity, 1}, {3 * capacity, 1}, {batch, batch + 1, 1}} {
					ok := true
					for _, p := range pushes {
						if p < 1 {
							ok = false
						}
					}
					if ok {
						c46run(capacity, batch, pushes, drop, &msgs)
					}
				}
			}
		}
	}
	// termination requested while alerts are queued: a Pop that hands out nothing must not take the
	// wake-up token with it — the next Pop (termination not requested) must still be woken. The
	// choice between the two ready channels is the runtime's, so the history is repeated.
	lost := 0
	for k := 0; k < 200 && lost == 0; k++ {
		q := NewQueue(nil, nil, 4, 2, labels.EmptyLabels(), nil, nil)
		q.Push([]*notifier.Alert{{Labels: labels.FromStrings("id", "1")}, {Labels: labels.FromStrings("id", "2")}})
		closed := make(chan struct{})
		close(closed)
		if got := q.Pop(closed); got != nil {
			continue // the batch was handed out: nothing to check in this repetition
		}
		done := make(chan []*notifier.Alert, 1)
		go func() { done <- q.Pop(nil) }()
		select {
		case <-done:
		case <-time.After(300 * time.Millisecond):
			lost++
			msgs = append(msgs, fmt.Sprintf("repetition %d: 2 alerts queued, a Pop with termination requested returned nothing, and the next Pop is never woken (queue still holds %d alerts): the wake-up token was taken by the Pop that handed out nothing", k, q.Len()))
		}
	}
	if len(msgs) > 0 {
		fmt.Println("REPLAY: reproduced:", strings.Join(msgs, "; "))
		t.Fail()
		return
	}
	fmt.Println("REPLAY: not reproduced")
}
