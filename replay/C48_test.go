package compactv2

// Replay harness for C48 (injected with `go test -overlay`): rewriting the chunks of one series with
// deletion intervals must keep exactly the samples outside the intervals — unless it fails with an
// error. Evaluated on the real delChunkSeriesIterator over generated chunk lists and interval lists
// (including the shape the failed obligation points at: a chunk whose samples are all deleted by
// several intervals none of which covers the chunk's whole time range), against a reference filter.

import (
	"fmt"
	"math/rand"
	"os"
	"strings"
	"testing"

	"github.com/prometheus/prometheus/model/labels"
	"github.com/prometheus/prometheus/storage"
	"github.com/prometheus/prometheus/tsdb/chunkenc"
	"github.com/prometheus/prometheus/tsdb/chunks"
	"github.com/prometheus/prometheus/tsdb/tombstones"
	"github.com/prometheus/prometheus/util/annotations"

	"github.com/thanos-io/thanos/pkg/block/metadata"
)

// ---- the whole modifier: several series through the real WithDeletionModifier(...).Modify --------

type c48set struct {
	series []storage.ChunkSeries
	i      int
}

func (s *c48set) Next() bool                        { s.i++; return s.i <= len(s.series) }
func (s *c48set) At() storage.ChunkSeries           { return s.series[s.i-1] }
func (s *c48set) Err() error                        { return nil }
func (s *c48set) Warnings() annotations.Annotations { return nil }

type c48log struct{}

func (c48log) DeleteSeries(labels.Labels, tombstones.Intervals) {}
func (c48log) ModifySeries(labels.Labels, labels.Labels)        {}
func (c48log) SeriesProcessed()                                 {}

type c48series struct {
	inst string
	ts   [][]int64
}

type c48req struct {
	inst string // equality matcher on label inst; "" = no matcher (matches every series)
	ivs  tombstones.Intervals
}

// c48modify rewrites the series with the requests (twice with the same modifier, as a rewrite of
// two blocks does) and compares each pass with the statement: a series matched by a request
// without intervals disappears; otherwise exactly the samples outside the union of the matching
// requests' closed intervals stay.
func c48modify(in []c48series, reqs []c48req, msgs *[]string) {
	var dreqs []metadata.DeletionRequest
	for _, r := range reqs {
		dr := metadata.DeletionRequest{Intervals: append(tombstones.Intervals(nil), r.ivs...)}
		if r.inst != "" {
			dr.Matchers = metadata.Matchers{labels.MustNewMatcher(labels.MatchEqual, "inst", r.inst)}
		}
		dreqs = append(dreqs, dr)
	}
	mod := WithDeletionModifier(dreqs...)
	for pass := 0; pass < 2; pass++ {
		set := &c48set{}
		for _, sr := range in {
			var metas []chunks.Meta
			for _, ts := range sr.ts {
				metas = append(metas, c48chunk(ts))
			}
			ms := metas
			set.series = append(set.series, &storage.ChunkSeriesEntry{
				Lset:            labels.FromStrings("inst", sr.inst),
				ChunkIteratorFn: func(chunks.Iterator) chunks.Iterator { return storage.NewListChunkSeriesIterator(ms...) },
			})
		}
		_, out := mod.Modify(nil, set, c48log{}, c48log{})
		got := map[string][]int64{}
		failed := false
		for out.Next() {
			cs := out.At()
			it := cs.Iterator(nil)
			key := cs.Labels().Get("inst")
			got[key] = []int64{}
			for it.Next() {
				si := it.At().Chunk.Iterator(nil)
				for si.Next() != chunkenc.ValNone {
					t, _ := si.At()
					got[key] = append(got[key], t)
				}
			}
			if it.Err() != nil {
				failed = true
			}
		}
		if out.Err() != nil || failed {
			return
		}
		for _, sr := range in {
			whole := false
			var del tombstones.Intervals
			for _, r := range reqs {
				if r.inst != "" && r.inst != sr.inst {
					continue
				}
				if len(r.ivs) == 0 {
					whole = true
				}
				del = append(del, r.ivs...)
			}
			want := []int64{}
			for _, ts := range sr.ts {
				for _, t := range ts {
					in := false
					for _, iv := range del {
						if iv.Mint <= t && t <= iv.Maxt {
							in = true
						}
					}
					if !in {
						want = append(want, t)
					}
				}
			}
			g, present := got[sr.inst]
			switch {
			case whole && present && len(g) > 0:
				if len(*msgs) < 4 {
					*msgs = append(*msgs, fmt.Sprintf("requests %v, pass %d: series inst=%s is matched by a whole-series deletion but the rewrite keeps %v", reqs, pass+1, sr.inst, g))
				}
			case !whole && fmt.Sprint(g) != fmt.Sprint(want) && !(len(want) == 0 && !present):
				if len(*msgs) < 4 {
					*msgs = append(*msgs, fmt.Sprintf("series inst=%s %v, requests %v, pass %d: rewritten series holds %v (present=%v), the samples outside the requested intervals are %v", sr.inst, sr.ts, reqs, pass+1, g, present, want))
				}
			}
		}
	}
}

func c48chunk(ts []int64) chunks.Meta {
	c := chunkenc.NewXORChunk()
	app, _ := c.Appender()
	for _, t := range ts {
		app.Append(t, float64(t))
	}
	return chunks.Meta{Chunk: c, MinTime: ts[0], MaxTime: ts[len(ts)-1]}
}

func c48run(chunkTs [][]int64, ivs tombstones.Intervals, msgs *[]string) {
	var metas []chunks.Meta
	var want []int64
	for _, ts := range chunkTs {
		metas = append(metas, c48chunk(ts))
		for _, t := range ts {
			in := false
			for _, iv := range ivs {
				if iv.Mint <= t && t <= iv.Maxt {
					in = true
				}
			}
			if !in {
				want = append(want, t)
			}
		}
	}
	var req tombstones.Intervals
	for _, iv := range ivs {
		req = req.Add(iv)
	}
	it := NewDelGenericSeriesIterator(storage.NewListChunkSeriesIterator(metas...), req, func(tombstones.Intervals) {}).ToChunkSeriesIterator()
	var got []int64
	for it.Next() {
		m := it.At()
		si := m.Chunk.Iterator(nil)
		for si.Next() != chunkenc.ValNone {
			t, _ := si.At()
			got = append(got, t)
		}
	}
	if it.Err() != nil {
		return // failing loudly removes nothing
	}
	if fmt.Sprint(got) != fmt.Sprint(want) && len(*msgs) < 4 {
		*msgs = append(*msgs, fmt.Sprintf("chunks %v, delete %v: rewritten series holds %v, the samples outside the intervals are %v (no error reported)", chunkTs, ivs, got, want))
	}
}

func TestGovcReplay(t *testing.T) {
	if _, err := os.ReadFile(os.Getenv("GOVC_REPLAY_FILE")); err != nil {
		t.Skip("no replay file")
	}
	var msgs []string
	c48run([][]int64{{1, 2}, {10, 11}}, tombstones.Intervals{{Mint: 1, Maxt: 1}, {Mint: 2, Maxt: 2}}, &msgs)
	c48run([][]int64{{0, 10, 20}, {30, 40}}, tombstones.Intervals{{Mint: 20, Maxt: 30}}, &msgs)
	c48run([][]int64{{0, 10, 20}, {30, 40}}, tombstones.Intervals{{Mint: 2, Maxt: 10}}, &msgs)
	// whole modifier: single-instant intervals, several requests matching one series with touching
	// or overlapping intervals followed by a series matching only the first, whole-series requests
	two := []c48series{{"1", [][]int64{{0, 1, 2}, {10, 11, 12}}}, {"2", [][]int64{{0, 1, 2}, {10, 11, 12}}}}
	c48modify(two, []c48req{{"2", tombstones.Intervals{{Mint: 10, Maxt: 10}}}}, &msgs)
	c48modify(two, []c48req{{"", tombstones.Intervals{{Mint: 0, Maxt: 2}}}, {"1", tombstones.Intervals{{Mint: 2, Maxt: 11}}}}, &msgs)
	c48modify(two, []c48req{{"1", nil}, {"", tombstones.Intervals{{Mint: 1, Maxt: 1}, {Mint: 11, Maxt: 11}}}}, &msgs)
	rm := rand.New(rand.NewSource(11))
	for i := 0; i < 300; i++ {
		var in []c48series
		for k := 0; k < 1+rm.Intn(3); k++ {
			sr := c48series{inst: fmt.Sprint(k + 1)}
			t0 := int64(0)
			for c := 0; c < 1+rm.Intn(3); c++ {
				var ts []int64
				for j := 0; j < 1+rm.Intn(4); j++ {
					t0 += int64(1 + rm.Intn(3))
					ts = append(ts, t0)
				}
				sr.ts = append(sr.ts, ts)
			}
			in = append(in, sr)
		}
		var reqs []c48req
		for k := 0; k < 1+rm.Intn(3); k++ {
			r := c48req{}
			if rm.Intn(3) > 0 {
				r.inst = fmt.Sprint(1 + rm.Intn(3))
			}
			if rm.Intn(6) > 0 {
				for j := 0; j < 1+rm.Intn(3); j++ {
					a := int64(rm.Intn(20))
					r.ivs = append(r.ivs, tombstones.Interval{Mint: a, Maxt: a + int64(rm.Intn(4))})
				}
			}
			reqs = append(reqs, r)
		}
		c48modify(in, reqs, &msgs)
	}
	rnd := rand.New(rand.NewSource(7))
	for i := 0; i < 400; i++ {
		var cts [][]int64
		t0 := int64(0)
		for c := 0; c < 1+rnd.Intn(3); c++ {
			var ts []int64
			for k := 0; k < 1+rnd.Intn(4); k++ {
				t0 += int64(1 + rnd.Intn(3))
				ts = append(ts, t0)
			}
			cts = append(cts, ts)
		}
		var ivs tombstones.Intervals
		for k := 0; k < rnd.Intn(4); k++ {
			a := int64(rnd.Intn(int(t0) + 2))
			ivs = append(ivs, tombstones.Interval{Mint: a, Maxt: a + int64(rnd.Intn(4))})
		}
		c48run(cts, ivs, &msgs)
	}
	if len(msgs) > 0 {
		fmt.Println("REPLAY: reproduced:", strings.Join(msgs, "; "))
		t.Fail()
		return
	}
	fmt.Println("REPLAY: not reproduced")
}
