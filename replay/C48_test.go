package compactv2

// Replay harness for C48 (injected with `go test -overlay`): rewriting the chunks of one series with
// deletion intervals must keep exactly the samples outside the intervals — unless it fails with an
// error. Evaluated on the real delChunkSeriesIterator over generated chunk lists and interval lists
// (including the shape the failed obligation points at: a chunk whose samples are all deleted by
// several intervals none of which covers the chunk's whole time range), against a reference filter.

import (
	"fmt"
	"math/rand"
	"os"
	"strings"
	"testing"

	"github.com/prometheus/prometheus/storage"
	"github.com/prometheus/prometheus/tsdb/chunkenc"
	"github.com/prometheus/prometheus/tsdb/chunks"
	"github.com/prometheus/prometheus/tsdb/tombstones"
)

func c48chunk(ts []int64) chunks.Meta {
	c := chunkenc.NewXORChunk()
	app, _ := c.Appender()
	for _, t := range ts {
		app.Append(t, float64(t))
	}
	return chunks.Meta{Chunk: c, MinTime: ts[0], MaxTime: ts[len(ts)-1]}
}

func c48run(chunkTs [][]int64, ivs tombstones.Intervals, msgs *[]string) {
	var metas []chunks.Meta
	var want []int64
	for _, ts := range chunkTs {
		metas = append(metas, c48chunk(ts))
		for _, t := range ts {
			in := false
			for _, iv := range ivs {
				if iv.Mint <= t && t <= iv.Maxt {
					in = true
				}
			}
			if !in {
				want = append(want, t)
			}
		}
	}
	var req tombstones.Intervals
	for _, iv := range ivs {
		req = req.Add(iv)
	}
	it := NewDelGenericSeriesIterator(storage.NewListChunkSeriesIterator(metas...), req, func(tombstones.Intervals) {}).ToChunkSeriesIterator()
	var got []int64
	for it.Next() {
		m := it.At()
		si := m.Chunk.Iterator(nil)
		for si.Next() != chunkenc.ValNone {
			t, _ := si.At()
			got = append(got, t)
		}
	}
	if it.Err() != nil {
		return // failing loudly removes nothing
	}
	if fmt.Sprint(got) != fmt.Sprint(want) && len(*msgs) < 4 {
		*msgs = append(*msgs, fmt.Sprintf("chunks %v, delete %v: rewritten series holds %v, the samples outside the intervals are %v (no error reported)", chunkTs, ivs, got, want))
	}
}

func TestGovcReplay(t *testing.T) {
	if _, err := os.ReadFile(os.Getenv("GOVC_REPLAY_FILE")); err != nil {
		t.Skip("no replay file")
	}
	var msgs []string
	c48run([][]int64{{1, 2}, {10, 11}}, tombstones.Intervals{{Mint: 1, Maxt: 1}, {Mint: 2, Maxt: 2}}, &msgs)
	c48run([][]int64{{0, 10, 20}, {30, 40}}, tombstones.Intervals{{Mint: 20, Maxt: 30}}, &msgs)
	c48run([][]int64{{0, 10, 20}, {30, 40}}, tombstones.Intervals{{Mint: 2, Maxt: 10}}, &msgs)
	rnd := rand.New(rand.NewSource(7))
	for i := 0; i < 400; i++ {
		var cts [][]int64
		t0 := int64(0)
		for c := 0; c < 1+rnd.Intn(3); c++ {
			var ts []int64
			for k := 0; k < 1+rnd.Intn(4); k++ {
				t0 += int64(1 + rnd.Intn(3))
				ts = append(ts, t0)
			}
			cts = append(cts, ts)
		}
		var ivs tombstones.Intervals
		for k := 0; k < rnd.Intn(4); k++ {
			a := int64(rnd.Intn(int(t0) + 2))
			ivs = append(ivs, tombstones.Interval{Mint: a, Maxt: a + int64(rnd.Intn(4))})
		}
		c48run(cts, ivs, &msgs)
	}
	if len(msgs) > 0 {
		fmt.Println("REPLAY: reproduced:", strings.Join(msgs, "; "))
		t.Fail()
		return
	}
	fmt.Println("REPLAY: not reproduced")
}
