package cacheutil

// Replay harness for C49 (injected with `go test -overlay`): every key must go to the same server
// whether it is looked up alone or in a batch; evaluated for 1..6 servers and short / long keys.

import (
	"fmt"
	"os"
	"strings"
	"testing"
)

func TestGovcReplay(t *testing.T) {
	if _, err := os.ReadFile(os.Getenv("GOVC_REPLAY_FILE")); err != nil {
		t.Skip("no replay file")
	}
	var msgs []string
	keys := []string{"a", "b", "key-1", "key-2", strings.Repeat("x", 127) + "1", strings.Repeat("x", 127) + "2", strings.Repeat("y", 200), strings.Repeat("y", 200) + "z"}
	for n := 1; n <= 6; n++ {
		var servers []string
		for i := 1; i <= n; i++ {
			servers = append(servers, fmt.Sprintf("127.0.0.%d:11211", i))
		}
		s := &MemcachedJumpHashSelector{}
		if err := s.SetServers(servers...); err != nil {
			continue
		}
		batch, err := s.PickServerForKeys(keys)
		if err != nil {
			continue
		}
		where := map[string]string{}
		for srv, ks := range batch {
			for _, k := range ks {
				if prev, dup := where[k]; dup {
					msgs = append(msgs, fmt.Sprintf("%d servers: key %.20q appears under %s and %s in one batch", n, k, prev, srv))
				}
				where[k] = srv
			}
		}
		for _, k := range keys {
			a, err := s.PickServer(k)
			if err != nil {
				continue
			}
			// a batch of this key alone
			if one, err := s.PickServerForKeys([]string{k}); err == nil {
				if _, ok := one[a.String()]; !ok && len(msgs) < 3 {
					var under []string
					for srv := range one {
						under = append(under, srv)
					}
					msgs = append(msgs, fmt.Sprintf("%d servers: key %.20q alone goes to %s, a batch holding only that key lists it under %v", n, k, a.String(), under))
				}
			}
			if where[k] != a.String() && len(msgs) < 3 {
				msgs = append(msgs, fmt.Sprintf("%d servers: key %.20q (len %d) goes to %s alone and to %q in a batch", n, k, len(k), a.String(), where[k]))
			}
		}
	}
	// the placement depends on the set of servers, not on the order they are listed in: the same
	// servers listed in natural order, in lexicographic order (.1 .10 .11 .2 ...), reversed and rotated
	for _, n := range []int{2, 3, 11, 12, 25} {
		var natural []string
		for i := 1; i <= n; i++ {
			natural = append(natural, fmt.Sprintf("127.0.0.%d:11211", i))
		}
		lexi := append([]string(nil), natural...)
		for i := range lexi {
			for j := i + 1; j < len(lexi); j++ {
				if lexi[j] < lexi[i] {
					lexi[i], lexi[j] = lexi[j], lexi[i]
				}
			}
		}
		rev := append([]string(nil), natural...)
		for i, j := 0, len(rev)-1; i < j; i, j = i+1, j-1 {
			rev[i], rev[j] = rev[j], rev[i]
		}
		rot := append(append([]string(nil), natural[n/2:]...), natural[:n/2]...)
		ref := &MemcachedJumpHashSelector{}
		if err := ref.SetServers(natural...); err != nil {
			continue
		}
		for name, list := range map[string][]string{"lexicographic": lexi, "reversed": rev, "rotated": rot} {
			s := &MemcachedJumpHashSelector{}
			if err := s.SetServers(list...); err != nil {
				continue
			}
			for _, k := range keys {
				a, err1 := ref.PickServer(k)
				b, err2 := s.PickServer(k)
				if err1 != nil || err2 != nil {
					continue
				}
				if a.String() != b.String() && len(msgs) < 3 {
					msgs = append(msgs, fmt.Sprintf("%d servers listed in %s order: key %.20q goes to %s, with the same servers in natural order to %s", n, name, k, b.String(), a.String()))
				}
			}
		}
	}
	if len(msgs) > 0 {
		fmt.Println("REPLAY: reproduced:", strings.Join(msgs, "; "))
		t.Fail()
		return
	}
	fmt.Println("REPLAY: not reproduced")
}
