#!/bin/bash
# Builds the engine offline and warms the Go build cache for the packages under contract.
set -e
export GOFLAGS=-mod=mod GOPROXY=off GOSUMDB=off GOTOOLCHAIN=local
export PATH=/opt/veriftools/go1.26.8/bin:$PATH
cd "$(dirname "$0")"
mkdir -p bin evidence replays .work
(cd engine && go build -o ../bin/govc .)
# warm export data used by go/packages (first load is slow on a cold cache)
(cd /repo && go build -tags slicelabels,verif ./pkg/... ./internal/cortex/... >/dev/null 2>&1 || true)
# the arithmetic lemmas given to the SMT solvers as axioms are checked by Lean's kernel
(cd lean && lean Aligned.lean) || { echo "lean lemma check failed"; exit 1; }
echo setup ok
