#!/usr/bin/env python3
"""bisect_unsat.py file.smt2 : finds the first assert (in order) whose inclusion makes the prefix + final goal unsat."""
import sys, subprocess, tempfile
lines = open(sys.argv[1]).read().split('\n')
# final two: goal assert(s) and check-sat
end = max(i for i,l in enumerate(lines) if l.startswith('(check-sat'))
goal_start = end - int(sys.argv[2]) if len(sys.argv) > 2 else end - 1
head, goal = lines[:goal_start], lines[goal_start:end+1]
asserts = [i for i,l in enumerate(head) if l.startswith('(assert')]
def run(upto):
    keep = [l for i,l in enumerate(head) if not l.startswith('(assert') or i in set(asserts[:upto])]
    with tempfile.NamedTemporaryFile('w', suffix='.smt2', delete=False) as f:
        f.write('\n'.join(keep + goal)); name = f.name
    out = subprocess.run(['z3-new', '-t:20000', name], capture_output=True, text=True).stdout.split('\n')[0]
    return out
lo, hi = 0, len(asserts)
print('all:', run(hi), 'none:', run(0))
while lo < hi:
    mid = (lo + hi) // 2
    if run(mid) == 'unsat': hi = mid
    else: lo = mid + 1
print('first unsat with', lo, 'asserts; culprit line', asserts[lo-1]+1)
print(head[asserts[lo-1]][:1500])
