#!/usr/bin/env python3
"""confirm_seed.py <ID> <variant> : confirms a seeded change in its scratch worktree /tmp/wt-<ID>:
 demo fails with the patch, passes without; every test of the touched packages that is in the
 pinned baseline's stable_pass list still passes with the patch. On success copies the seed to
 /verif/seeded/<ID>-<variant>/ with the confirmation recorded in meta.json."""
import json, os, subprocess, sys, shutil, re
pid, var = sys.argv[1], sys.argv[2]
wt = os.environ.get('SEED_WT', '/tmp/wt-%s' % pid)
src = os.environ.get('SEED_SRC', '/tmp/seed-%s/%s' % (pid, var))
env = dict(os.environ, GOFLAGS='-mod=mod', GOPROXY='off', GOSUMDB='off', GOTOOLCHAIN='local',
           PATH='/opt/veriftools/go1.26.8/bin:' + os.environ['PATH'])
meta = json.load(open(src + '/meta.json'))
demo_dir = meta['demo_dir'].split()[0].strip('./').rstrip('/')
demo_dst = os.path.join(wt, demo_dir, 'zz_seed_demo_test.go')
def sh(cmd, **kw):
    return subprocess.run(cmd, shell=True, cwd=wt, env=env, capture_output=True, text=True, **kw)
def clean():
    sh('git checkout -- . && rm -f %s' % demo_dst)
clean()
patch = open(src + '/patch.diff').read()
pkgs = sorted({os.path.dirname(m) for m in re.findall(r'^\+\+\+ b/(\S+\.go)', patch, re.M)})
tags = ''
m = re.search(r'-tags[ =](\S+)', meta.get('demo_run', ''))
if m: tags = '-tags ' + m.group(1)
runm = re.search(r"-run[ =]('[^']+'|\"[^\"]+\"|\S+)", meta.get('demo_run', ''))
run = runm.group(1) if runm else 'Seed'
democmd = 'go test %s -vet=off -count=1 -timeout 20m -run %s ./%s/' % (tags, run, demo_dir)
res = {'demo_cmd': democmd}
# 1. with patch: demo must fail
r = sh('git apply %s/patch.diff' % src)
if r.returncode: print('patch does not apply', r.stderr); sys.exit(1)
shutil.copy(src + '/demo_test.go', demo_dst)
r = sh(democmd)
res['demo_with_patch'] = 'FAIL' if r.returncode != 0 else 'PASS'
res['demo_with_patch_tail'] = (r.stdout + r.stderr)[-600:]
os.remove(demo_dst)
# 2. with patch: stable tests of the touched packages
base = json.load(open('/root/.vp/BASELINE.json'))
stable = set(base['stable_pass'])
lost = []
ran = 0
for p in pkgs:
    imp = 'github.com/thanos-io/thanos/' + p
    want = {t for t in stable if t.startswith(imp + '::')}
    if not want: continue
    r = sh('go test -json -vet=off -count=1 -timeout 25m ./%s/' % p)
    passed = set()
    for line in r.stdout.splitlines():
        try: e = json.loads(line)
        except Exception: continue
        if e.get('Action') == 'pass' and e.get('Test'):
            passed.add('%s::%s' % (e['Package'], e['Test']))
    ran += len(want)
    for t in sorted(want - passed):
        name = t.split('::')[1].split('/')[0]
        r2 = sh("go test -vet=off -count=1 -timeout 10m -run '^%s$' ./%s/" % (name, p))
        if r2.returncode != 0: lost.append(t)
res['stable_tests_checked'] = ran
res['stable_tests_lost'] = lost
# 3. without patch: demo must pass
sh('git checkout -- .')
shutil.copy(src + '/demo_test.go', demo_dst)
r = sh(democmd)
res['demo_without_patch'] = 'PASS' if r.returncode == 0 else 'FAIL'
res['demo_without_patch_tail'] = (r.stdout + r.stderr)[-400:]
clean()
ok = res['demo_with_patch'] == 'FAIL' and res['demo_without_patch'] == 'PASS' and not lost
res['confirmed'] = ok
print(json.dumps({k: v for k, v in res.items() if not k.endswith('_tail')}, indent=1))
if not ok:
    print(res['demo_with_patch_tail']); print(res['demo_without_patch_tail'])
    sys.exit(1)
dst = '/verif/seeded/%s-%s' % (pid, var)
os.makedirs(dst, exist_ok=True)
shutil.copy(src + '/patch.diff', dst)
shutil.copy(src + '/demo_test.go', dst)
meta['confirmation'] = res
json.dump(meta, open(dst + '/meta.json', 'w'), indent=1)
print('stored', dst)
