#!/usr/bin/env python3
"""Generates MANIFEST.json from props.json + na.json (kept in sync by construction)."""
import json, os, subprocess
root = os.path.dirname(os.path.dirname(os.path.abspath(__file__)))
props = json.load(open(os.path.join(root, 'props.json')))
na = json.load(open(os.path.join(root, 'na.json')))
ids = [json.loads(l)['id'] for l in open(os.path.join(root, 'properties.jsonl'))]
hooks = subprocess.run(['git', '-C', '/repo', 'log', '--format=%H %s'], capture_output=True, text=True).stdout.splitlines()
hook_commits = [l.split()[0] for l in hooks if l.split(' ', 1)[1].startswith('verif:')]
checks = []
for pid in ids:
    if pid not in props:
        continue
    p = props[pid]
    partial = ' PARTIAL — not decided: ' + '; '.join(p.get('not_covered', [])) if p.get('not_covered') else ''
    checks.append({
        'property_id': pid,
        'quick_cmd': './check %s --tier quick' % pid,
        'thorough_cmd': './check %s --tier thorough' % pid,
        'evidence_file': '/verif/evidence/%s.json' % pid,
        'replay_cmd_template': './check %s --replay {path}' % pid,
        'engine': 'govc',
        'level_claimed': {
            'category': 'proof',
            'text': p['claim'] + '. Every obligation (pre/postconditions, loop invariants, frame, index/slice/division safety) is generated from the go/ssa form of the real functions in /repo on every run and discharged by z3/cvc5 for all inputs and all iterations.' + partial,
            'design_ref': 'DESIGN.md §7 ' + pid,
        },
        'level_note': 'Trusted: go/ssa front end, the govc VC generator, SMT solvers, assumed extern contracts and idealisations listed per run in the evidence file (trusted_base). Functions under contract: ' + ', '.join(p['functions']),
        'technique': 'contract-based deductive verification: weakest-precondition style VCs over go/ssa of the real code, contracts in //go:build verif comment files, discharged by z3 5.1 / cvc5 / z3 4.8 (raced)',
    })
missing = [i for i in ids if i not in props and i not in na]
assert not missing, 'properties neither claimed nor N/A: %s' % missing
na = {k: v for k, v in na.items() if k not in props}
m = {
    'version': 1,
    'setup_cmd': './setup.sh',
    'hooks': {
        'guard': 'verif',
        'enable': 'go build/load with -tags slicelabels,verif (the tag only adds comment-only contract files zz_contracts_verif.go; no executable code)',
        'baseline_off_cmd': json.load(open('/root/.vp/BASELINE.json'))['cmd'],
        'source_commits': hook_commits,
        'add_only': True,
    },
    'engines': [{'name': 'govc', 'path': '/verif/engine', 'serves_properties': [c['property_id'] for c in checks],
                 'kind_free_text': 'VC generator for Go over go/ssa (symbolic execution with loop cut points, Burstall-Bornat heap, modular calls by contract) + SMT (z3-new, cvc5, z3) + counterexample replay on the real code via go test -overlay'}],
    'checks': checks,
    'not_applicable': [{'property_id': i, 'reason': na[i]} for i in ids if i in na],
    'notes': 'Contracts live in /repo/pkg/**/zz_contracts_verif.go (build tag verif, comment-only). known findings: /verif/known_findings.json. See DESIGN.md.',
}
json.dump(m, open(os.path.join(root, 'MANIFEST.json'), 'w'), indent=1)
print('claimed', len(checks), 'n/a', len(m['not_applicable']))
