#!/bin/bash
# runs every confirmed seed against the check of its property; prints one line per seed
cd /verif
for d in seeded/*/; do
  n=$(basename $d); id=${n%-*}
  if ! python3 -c "import json,sys; sys.exit(0 if '$id' in json.load(open('props.json')) else 1)"; then echo "$n: property not claimed"; continue; fi
  if ! git -C /repo apply --check /verif/$d/patch.diff 2>/dev/null; then echo "$n: patch does not apply to the current tree"; continue; fi
  out=$(tools/run_seed.sh $id $n 2>&1)
  v=$(echo "$out" | grep -c "^VIOLATION")
  r=$(echo "$out" | grep "^VIOLATION" | grep -vc "no-failing-input-found")
  echo "$n: violations=$v with_replayed_input=$r $(echo "$out" | grep -o 'check exit=[0-9]*')"
done
