#!/bin/bash
# usage: tools/run_seed.sh <ID> <seed-dir-name> : applies a seeded change to /repo, runs the quick check, reverts it.
id=$1; seed=/verif/seeded/$2
cd /verif
git -C /repo diff --quiet || { echo "/repo has uncommitted changes; refusing"; exit 2; }
cp evidence/$id.json /tmp/evidence.$id.$$ 2>/dev/null
git -C /repo apply $seed/patch.diff || exit 2
./check $id 2>&1 | cut -c1-220 > /tmp/seedrun.$$; rc=${PIPESTATUS[0]}
git -C /repo apply -R $seed/patch.diff
[ -f /tmp/evidence.$id.$$ ] && mv /tmp/evidence.$id.$$ evidence/$id.json
cat /tmp/seedrun.$$; rm -f /tmp/seedrun.$$
echo "check exit=$rc"
exit 0
