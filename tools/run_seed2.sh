#!/bin/bash
# usage: tools/run_seed2.sh <ID> <seed-dir-name> : like run_seed.sh, but on a scratch copy of /repo
# (the way the thorough tier's self-test does it), so /repo itself is never touched.
id=$1; seed=/verif/seeded/$2
export GOFLAGS=-mod=mod GOPROXY=off GOSUMDB=off GOTOOLCHAIN=local PATH=/opt/veriftools/go1.26.8/bin:$PATH
scratch=$(mktemp -d /tmp/govc-seedrun.XXXXXX)
trap 'rm -rf "$scratch"' EXIT
rsync -a --exclude .git /repo/ "$scratch/repo/"
(cd "$scratch/repo" && patch -p1 -s < $seed/patch.diff) || { echo "patch does not apply"; exit 2; }
cd /verif
VERIF_REPO="$scratch/repo" GOVC_EVIDENCE_OUT="$scratch/ev.json" GOVC_REPLAY_DIR="$scratch/replays" bin/govc check "$id" --tier quick 2>&1 | cut -c1-220
rc=${PIPESTATUS[0]}
if [ -n "$SEED_SHOW_REPLAY" ]; then for f in "$scratch"/replays/*.json; do [ -f "$f" ] && python3 -c "import json,sys;r=json.load(open(sys.argv[1]));print(sys.argv[1].split('/')[-1],r.get('reproduced'),(r.get('replay_output') or '')[:1500])" "$f"; done; fi
echo "check exit=$rc"
