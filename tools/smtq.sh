#!/bin/bash
# usage: tools/smtq.sh file.smt2 'term1' 'term2' ... : runs z3-new and prints the values of the terms in the model
f=$1; shift
t=$(mktemp /tmp/smtq.XXXXXX.smt2)
sed 's/^(set-option :produce-models false)//' "$f" | grep -v '^(check-sat)' | grep -v '^(get-model)' > $t
echo "(check-sat)" >> $t
for x in "$@"; do echo "(get-value ($x))" >> $t; done
z3-new -T:60 model=true $t 2>&1 | head -100
rm -f $t
