#!/usr/bin/env python3
"""stable_tests.py <repo dir> <pkg dir>... : runs the untagged tests of the packages and reports
which tests of the pinned baseline's stable_pass list do not pass."""
import json, os, subprocess, sys
repo = sys.argv[1]
env = dict(os.environ, GOFLAGS='-mod=mod', GOPROXY='off', GOSUMDB='off', GOTOOLCHAIN='local',
           PATH='/opt/veriftools/go1.26.8/bin:' + os.environ['PATH'])
stable = set(json.load(open('/root/.vp/BASELINE.json'))['stable_pass'])
lost_all = []
for p in sys.argv[2:]:
    imp = 'github.com/thanos-io/thanos/' + p.strip('./')
    want = {t for t in stable if t.startswith(imp + '::')}
    r = subprocess.run('go test -json -vet=off -count=1 -timeout 25m ./%s/' % p.strip('./'), shell=True, cwd=repo, env=env, capture_output=True, text=True)
    passed = set()
    for line in r.stdout.splitlines():
        try: e = json.loads(line)
        except Exception: continue
        if e.get('Action') == 'pass' and e.get('Test'):
            passed.add('%s::%s' % (e['Package'], e['Test']))
    lost = sorted(want - passed)
    # tests lost because the untagged package run crashed in another test are re-run on their own
    still = []
    for t in lost:
        name = t.split('::')[1].split('/')[0]
        r2 = subprocess.run("go test -vet=off -count=1 -timeout 10m -run '^%s$' ./%s/" % (name, p.strip('./')), shell=True, cwd=repo, env=env, capture_output=True, text=True)
        if r2.returncode != 0: still.append(t)
    lost = still
    print(p, 'stable tests:', len(want), 'lost:', len(lost))
    for l in lost[:20]: print('  LOST', l)
    lost_all += lost
sys.exit(1 if lost_all else 0)
