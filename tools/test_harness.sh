#!/bin/bash
# compiles (and smoke-runs without a replay file) every replay harness against /repo
export GOFLAGS=-mod=mod GOPROXY=off GOSUMDB=off GOTOOLCHAIN=local PATH=/opt/veriftools/go1.26.8/bin:$PATH
cd /verif
python3 - <<'PY'
import json,subprocess,os,sys
props=json.load(open('/verif/props.json'))
only=sys.argv[1:] 
bad=0
for pid,p in sorted(props.items()):
    if not p.get('replay_file'): continue
    if os.environ.get('ONLY') and pid not in os.environ['ONLY'].split(','): continue
    ov={'Replace':{'/repo/%s/zz_govc_replay_test.go'%p['replay_pkg']:'/verif/replay/'+p['replay_file']}}
    json.dump(ov,open('/tmp/ov_%s.json'%pid,'w'))
    r=subprocess.run(['go','test','-overlay','/tmp/ov_%s.json'%pid,'-tags',p.get('replay_tags','slicelabels'),'-vet=off','-count=1','-timeout','120s','-run','TestGovcReplay','./'+p['replay_pkg']+'/'],cwd='/repo',capture_output=True,text=True)
    ok = r.returncode==0
    print(pid,'ok' if ok else 'FAIL\n'+r.stdout[-1500:]+r.stderr[-500:])
    os.remove('/tmp/ov_%s.json'%pid)
    bad += (not ok)
sys.exit(bad)
PY
