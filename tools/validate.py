#!/usr/bin/env python3
import json, sys, glob, jsonschema
m = json.load(open('/verif/MANIFEST.json'))
jsonschema.validate(m, json.load(open('/root/.vp/MANIFEST.schema.json')))
es = json.load(open('/root/.vp/EVIDENCE.schema.json'))
bad = 0
for c in m['checks']:
    f = c['evidence_file']
    try:
        e = json.load(open(f))
        jsonschema.validate(e, es)
        cov = e['coverage']
        if e['level'] == 'proof' and cov.get('obligations') != cov.get('discharged'):
            print('NOT ALL DISCHARGED', f); bad += 1
    except Exception as ex:
        print('BAD', f, str(ex)[:200]); bad += 1
print('manifest ok; evidence problems:', bad)
sys.exit(1 if bad else 0)
